"""Per-property configuration of the driver: which generated tests decide the
property, how many cases per shard in each tier, and the texts that go into the
evidence file."""

COMMON_ASSUMPTIONS = [
    "rapid v1.3.0 generators and shrinking; every random choice is drawn from rapid, seeded from VERIF_SEED",
    "the harness is rebuilt from /repo's working tree through a go.mod replace directive on every run",
    "a pass means no violation among the generated cases; it does not establish absence",
]

PROPS = {
    "C14": {
        "level": "exploration",
        "technique": "property-based testing (rapid): generated sequences/patterns vs textbook reference model, three encodings",
        "level_text": "Generated-input search: every //seq function on generated small-alphabet sequences in all three "
                      "representations is compared with a reference implementation on []int. Finds wrong answers on the "
                      "explored inputs (lengths <= 12); absence beyond that is not established.",
        "level_note": "Trusted: the 60-line reference definitions in harness/checks/c14_test.go (Go strings.* conventions), "
                      "obs.Denote (exported enumerators only), rapid.",
        "tests": [{"name": "TestC14", "quick": 2500, "thorough": 40000}],
        "rule": "abstract sequences over {1,2,(3)} of length 0-8 (thorough 0-12), patterns of length 0-4 taken from the "
                "subject half of the time, encoded as string / byte array / array and passed to each //seq function; "
                "oracle = textbook definition on []int re-encoded in the same representation. Non-trivial: empty "
                "pattern or subject, a pattern with a proper border (self-overlap), a failed partial match before the "
                "first full match, >=2 parts for join/concat, n != 1 for repeat. Distinct = distinct program text.",
        "assumptions": COMMON_ASSUMPTIONS + [
            "reference definitions: Go strings.Split/ReplaceAll conventions (leftmost non-overlapping; empty pattern splits/inserts between elements)",
            "(function, representation) pairs not documented in docs/docs/std/seq.md (join and repeat on byte arrays) are only required not to panic",
        ],
    },
}
