"""Per-property configuration of the driver: which generated tests decide the
property, how many cases per shard in each tier, and the texts that go into the
evidence file."""

COMMON_ASSUMPTIONS = [
    "rapid v1.3.0 generators and shrinking; every random choice is drawn from rapid, seeded from VERIF_SEED",
    "the harness is rebuilt from /repo's working tree through a go.mod replace directive on every run",
    "a pass means no violation among the generated cases; it does not establish absence",
]

PROPS = {
    "C14": {
        "level": "exploration",
        "technique": "property-based testing (rapid): generated sequences/patterns vs textbook reference model, three encodings",
        "level_text": "Generated-input search: every //seq function on generated small-alphabet sequences in all three "
                      "representations is compared with a reference implementation on []int. Finds wrong answers on the "
                      "explored inputs (lengths <= 12); absence beyond that is not established.",
        "level_note": "Trusted: the 60-line reference definitions in harness/checks/c14_test.go (Go strings.* conventions), "
                      "obs.Denote (exported enumerators only), rapid.",
        "tests": [{"name": "TestC14", "quick": 2500, "thorough": 25000}],
        "rule": "abstract sequences over {1,2,(3)} of length 0-8 (thorough 0-12), patterns of length 0-4 taken from the "
                "subject half of the time, encoded as string / byte array / array and passed to each //seq function; "
                "oracle = textbook definition on []int re-encoded in the same representation. Non-trivial: empty "
                "pattern or subject, a pattern with a proper border (self-overlap), a failed partial match before the "
                "first full match, >=2 parts for join/concat, n != 1 for repeat. Distinct = distinct program text.",
        "assumptions": COMMON_ASSUMPTIONS + [
            "reference definitions: Go strings.Split/ReplaceAll conventions (leftmost non-overlapping; empty pattern splits/inserts between elements)",
            "(function, representation) pairs not documented in docs/docs/std/seq.md (join and repeat on byte arrays) are only required not to panic",
        ],
    },
    "C01": {
        "level": "exploration",
        "technique": "property-based testing (rapid): generated set operands in every representation and construction path vs a finite-set reference model",
        "level_text": "Generated-input search: operands of every set-algebra operator are drawn in all representations "
                      "(string, bytes, array, dict, relation, mixed-bucket unions, offsets, holes, colliding indices/keys, "
                      "literal and computed construction paths) and the result is compared member by member with a reference "
                      "model of finite sets; Count(), Has() and the enumeration of the result are cross-checked. Absence beyond "
                      "the generated sizes (width <= 6, depth <= 3) is not established.",
        "level_note": "Trusted: harness/model (finite sets by comprehension, own unit tests), obs.Denote (exported enumerators only), rapid. "
                      "Failures inside the two open known findings (superimposed sequence index, sparse byte array) are excused by model-side tags only.",
        "tests": [{"name": "TestC01", "quick": 3000, "thorough": 15000}],
        "rule": "one operator of | & &~ ~~ with without <: !<: (<) (<=) (>) (>=) (<>) (<>=) count where => ^ applied to generated sets; "
                "oracle = reference model result compared with the denotation of the evaluated result, plus Count/Has/enumeration consistency. "
                "Non-trivial: operands of different representation kinds, or an operand with offset/holes/colliding index or key/mixed buckets, "
                "or a result whose representation differs from both operands. Distinct = distinct program text.",
        "assumptions": COMMON_ASSUMPTIONS + [
            "sugar-shaped tuples (@: i, @char|@byte|@item: x) are generated with integer i and in-range char/byte only (other shapes panic and are pinned by the repository's own tests; C10)",
            "power set operands are cut to 5 members",
        ],
    },
    "C02": {
        "level": "exploration",
        "technique": "property-based testing (rapid): one model value built by two independent construction paths (or a near-miss), equality/membership/dict-key/repr/operator contexts compared with the model",
        "level_text": "Generated-input search: a model value D is rendered through two independently drawn construction paths "
                      "(sugar literal, spelled-out tuples, relation literal, |, &, &~, where, =>, with, without, ++, offset, +>, "
                      "attribute removal/projection, let) or paired with a near-miss D' != D; a = b, b = a, a != b, {a, b} count, {a: 1}(b), "
                      "//str.repr equality and one operator context applied to both must agree with model equality in both directions. "
                      "Absence beyond generated sizes is not established.",
        "level_note": "Trusted: harness/model equality (canonical text of finite sets/tuples/numbers), the path renderer (paths are equal to D by "
                      "construction in the model), rapid. Open known findings (superimposed index, sparse bytes) excused by model-side tags only.",
        "tests": [{"name": "TestC02", "quick": 700, "thorough": 6000}],
        "rule": "pairs (path1(D), path2(D)) or (path1(D), path2(D')) with D' a one-step mutation of D. Non-trivial: D is not a bare number and at least "
                "two different construction forms were used, one of them computed. Distinct = distinct program text.",
        "assumptions": COMMON_ASSUMPTIONS + [
            "for unequal pairs only the equality facts (=, !=, count of {a,b}, dict lookup, repr inequality) are asserted",
        ],
    },
    "C06": {
        "level": "exploration",
        "technique": "property-based testing (rapid): generated pairs/triples/quadruples of values of every kind; order laws checked on the implementation's own answers (validity predicate, no imposed order)",
        "level_text": "Generated-input search: 2-4 values drawn across every kind and representation (numbers, tuples incl. @neg wrappers and "
                      "sugar tuples, every set form, equal denotations through different construction paths, near-misses). One program reports the "
                      "full < and = matrices, <= >= > != for the first pair, orderby . of the set built in two orders, max, min and the printed set. "
                      "The oracle checks = against model equality, trichotomy, transitivity, derived relations, orderby being a sorted permutation, "
                      "min/max being its ends and the printed member order being the sorted order. Absence beyond generated sizes is not established.",
        "level_note": "Trusted: model equality, the law checker in c06_test.go, rapid. No expected order is imposed, only the order laws the property states.",
        "tests": [{"name": "TestC06", "quick": 350, "thorough": 4000}],
        "rule": "k in 2..4 values, each fresh, a duplicate of an earlier one through another construction path, or a one-step mutation of an earlier one. "
                "Non-trivial: values of at least two different kinds, or a kind with offset/holes/multi-values/relation/union. Distinct = distinct program text.",
        "assumptions": COMMON_ASSUMPTIONS + [
            "two values at one sequence index are excluded by construction here (the superimposed-index finding makes the operand values themselves wrong); C01 covers them",
            "printed order is compared only when the set of all values prints as a brace-enclosed member list (not as string/array/dict/relation sugar)",
        ],
    },
    "C05": {
        "level": "exploration",
        "technique": "property-based testing (rapid): generated keyed collections in every representation, arguments of every class, model-backed transformers; results compared with the exactly-one/shift/map reference model",
        "level_text": "Generated-input search: sets of (@, x) pairs as strings, byte arrays, arrays (offsets, holes), dictionaries (multi-valued keys), "
                      "{|@,@foo|} relations, mixed unions and hand-written tuple sets, through literal and computed construction paths. c(k) and c(k)?:d are "
                      "compared with the exactly-one rule (0 values: error / fallback; >= 2: error in both forms); >> and >>> with the key-preserving map; "
                      "++ with union-after-shift-by-count; n\\seq with the shifted set (non-integer n: error or exact). Absence beyond generated sizes is not established.",
        "level_note": "Trusted: model.CallAll/MapValues/shift, rapid. Where the property lets an operation reject a value it cannot represent (invalid char/byte from >>, "
                      "offset of a non-sequence, fractional offset) an ordinary error is accepted as well as the exact result; a silently different value never is.",
        "tests": [{"name": "TestC05", "quick": 2500, "thorough": 15000}],
        "rule": "operators call, safe call, >>, >>>, ++, offset on generated keyed collections. Non-trivial: collection with offset/holes/duplicate key/mixed buckets, "
                "or an argument that is absent, non-integer or of the wrong kind. Distinct = distinct program text.",
        "assumptions": COMMON_ASSUMPTIONS + [
            "collections contain only two-attribute tuples with an @ attribute (what 'set of (@, x) pairs' means); other sets are C01's domain",
        ],
    },
    "C03": {
        "level": "exploration",
        "technique": "property-based testing (rapid): generated branching derivation histories (let chains); every value ever bound is observed after all derivations and compared with an independently computed model value",
        "level_text": "Generated-input search over histories: 1-3 seed values (strings, byte arrays, arrays with offsets/holes, dictionaries, relations) and up to "
                      "10 (thorough 20) derivation steps, each applied to an earlier value with a bias to old parents so that the same parent is extended "
                      "several times: with at the end/front, without first/last, ++, | at the end, &, &~, >>, offset, where, //seq.trim_suffix, dict with/without/|/>>, "
                      "relation with/|/without/where/nest and joins over derived and parent relations. The program returns all bound names at the end; each must "
                      "equal its model value. Absence beyond the generated histories is not established.",
        "level_note": "Trusted: the model value of every step (computed without sharing), rapid. Histories avoid (by construction, counted in classes) values the two open known findings cannot represent.",
        "tests": [{"name": "TestC03", "quick": 1200, "thorough": 8000}],
        "rule": "let-chain histories; non-trivial = a parent that is extended at its end at least twice (branching append) or an end-append applied to the result of dropping "
                "the last element. Distinct = distinct program text.",
        "assumptions": COMMON_ASSUMPTIONS,
    },
    "C04": {
        "level": "exploration",
        "technique": "property-based testing (rapid): generated relation pairs with arbitrary heading overlap/order/representation vs a nested-loop reference join and its documented projections; nest/unnest/rank vs set-comprehension definitions",
        "level_text": "Generated-input search: two relations over {a,b,c,d,@,@item,@char,@value,@foo,@byte} with arbitrary heading overlap (each of left-only/common/"
                      "right-only possibly empty), 0-4 rows over tiny domains so matches and non-matches are frequent, rendered as relation literals with permuted "
                      "headings, sets of tuple literals, arrays/strings/dicts used as binary relations, unions, and results of earlier joins (non-identity column "
                      "layouts); all eight join operators compared with the projection of a nested-loop natural join. nest (|attrs|n, ~|attrs|n, single attribute) "
                      "compared with grouping by comprehension, rel.Unnest of the nest result with the operand, rank with the count of strictly smaller keys.",
        "level_note": "Trusted: model.Join/Nest/Unnest (nested loops; unit-tested against the worked examples of docs/docs/lang/relops.md), rapid. unnest has no source syntax "
                      "(the compiler panics 'unfinished'), so the exported rel.Unnest is applied to evaluated nest results.",
        "tests": [{"name": "TestC04", "quick": 2500, "thorough": 25000}],
        "rule": "join: non-trivial when some but not all row pairs match, or a heading partition is empty, or an operand has a sugar heading (@ plus @item/@char/@value/@byte/@foo); "
                "nest: at least two groups with at least one group of size >= 2; rank: at least three rows. Distinct = distinct program text.",
        "assumptions": COMMON_ASSUMPTIONS + [
            "rank keys are numbers (where < is not in dispute)",
            "both join operands are relations (all members tuples with one heading); heterogeneous tuple sets are C01's domain",
        ],
    },
    "C11": {
        "level": "exploration",
        "technique": "property-based testing (rapid) under the Go race detector: generated concurrent-evaluation trials (shared cold values, shared compiled expressions, shared import cache, frozen's parallel traversal forced on by FROZEN_CONCURRENCY=5) with race reports attributed to the running case, and every goroutine's result compared with a Go-computed reference value",
        "level_text": "Generated-input search over trial descriptions; the interleavings are those the Go scheduler produces on 16 cores, each trial released from a barrier and repeated on fresh (cold) values. "
                      "The test binary is built with -race; reports are written to a log (GORACE log_path) and read back after every case, so a report becomes a failure of the case that was running. "
                      "A report counts iff the innermost non-runtime frame of at least one of the two conflicting accesses is in github.com/arr-ai/arrai (memory owned by arr.ai's code); "
                      "reports wholly inside another module are listed in the evidence notes and not counted. Oracles besides the detector: all goroutines return the same value, it equals the value computed "
                      "in Go from the inputs (joins, where, map, set algebra, orderby on 130-700 member sets; serial result otherwise), an evaluation whose predicate fails for some member returns an error, "
                      "and the same evaluation alone afterwards agrees. Trial kinds: shared-tuple (first use of a GenericTuple's lazily cached names from 2-16 goroutines: {t}, <, repr, +, merge), "
                      "shared-relation (join-built relations with cold group-by index: joins, nest, rank, orderby, compare), parallel-join / parallel-where / parallel-generic "
                      "(sets above frozen's fan-out threshold, also from 1-4 goroutines at once), shared-import (one import cache, module chains), cold-start (first use of the standard library scopes from 8 goroutines at process start). "
                      "Thorough adds trials at frozen's default threshold (>= 131072 members).",
        "level_note": "Trusted: Go's race detector (it reports a pair of conflicting accesses only when they actually occur in the run without a happens-before edge: no false positives, misses possible), "
                      "the attribution rule above, the model's joins/filters, rapid. Not explored: schedules the Go scheduler does not produce in these runs; //os.stdin (process state).",
        "tests": [{"name": "TestC11", "quick": 40, "thorough": 600, "race": True,
                   "env": {"GORACE": "log_path={scratch}/race halt_on_error=0", "FROZEN_CONCURRENCY": "5"}},
                  {"name": "TestC11Default", "quick": 0, "thorough": 3, "race": True, "max_shards": 2,
                   "env": {"GORACE": "log_path={scratch}/race halt_on_error=0"}}],
        "rule": "non-trivial: at least 4 goroutines share the values, or the set is above the parallel fan-out threshold in force. Distinct = distinct case JSON (kind, expression, goroutines, size, seed).",
        "assumptions": COMMON_ASSUMPTIONS,
    },
    "C12": {
        "level": "exploration",
        "technique": "property-based testing (rapid): generated data values -> printed text -> re-evaluated -> compared with the model value (round trip), plus generated string literals decoded against an independent escape decoder",
        "level_text": "Generated-input search: values over strings of arbitrary Unicode scalars (biased to quotes, backslash, backquotes, control "
                      "characters, DEL, astral and BMP-edge characters, digits after escapes), attribute names with arbitrary characters, offset and sparse "
                      "strings/arrays, offset byte arrays, multi-valued dictionaries, relations with sugar-looking and non-identifier headings, @neg wrappers, "
                      "numbers whose shortest decimal form is short. The value is built with the exported constructors, printed with %v and //str.repr (must "
                      "agree), the text is evaluated and must denote the model value, be Equal both ways and print identically. Separately, string literals made "
                      "of raw characters and every documented escape form are decoded by the evaluator and by a 30-line reference decoder.",
        "level_note": "Trusted: obs.ToRel (NewTuple/NewSet/NewNumber only), obs.Denote, the reference escape decoder in genStrLit, rapid. The bundle config file is covered by C15.",
        "tests": [{"name": "TestC12", "quick": 4000, "thorough": 30000}],
        "rule": "non-trivial: nesting depth >= 2, or a string with a character needing an escape, or a non-identifier attribute name, or an offset/hole, or a string literal with an escape. Distinct = distinct value key + literal.",
        "assumptions": COMMON_ASSUMPTIONS + [
            "tuples never hold both x and &x (the evaluator strips the counterpart, so such tuples cannot be produced)",
            "numbers are drawn from a list whose shortest decimal form is under 15 characters",
        ],
    },
    "C08": {
        "level": "exploration",
        "technique": "property-based testing (rapid), metamorphic: one generated typed AST rendered in two documented-equivalent ways (or rewritten by let-inlining / poisoning unselected branches); both evaluated by the real evaluator and compared",
        "level_text": "Generated-input search: closed, typed-by-construction programs over numbers, booleans, sets, arrays, tuples and strings (let, cond, "
                      "&&, ||, !, comparisons incl. chains, <:, set and arithmetic operators, with/without, +>, ++, .attr, safe calls, count, unary minus, "
                      "where/=>/>>/orderby/sum with the implicit binder). Rendering A uses minimal parentheses from the documented precedence table; rendering B "
                      "applies a random subset of: full parenthesisation, comments/whitespace/redundant parentheses, let as -> \\x or (\\x body)(e), the implicit "
                      "binder as \\. or \\x, sugar literals spelled out as sets of tuples, let-bound names replaced by their values, branches that cond/&&/|| must not "
                      "evaluate replaced by failing expressions (conditions are closed and their truth is computed by the generator). A and B must both fail or "
                      "give Equal values with identical printed form.",
        "level_note": "Trusted: the printer's precedence table (DESIGN.md appendix B, taken from syntax/arrai.wbnf), the generator's own evaluation of closed boolean conditions, rapid. "
                      "Grammar quirks that are not about meaning are kept out of the domain: a bare '.' directly before a word operator is always parenthesised; 'if/else' (deprecated) and "
                      "'cond x {...}' control values are not generated here (C09 covers cond patterns).",
        "tests": [{"name": "TestC08", "quick": 1500, "thorough": 15000}],
        "rule": "non-trivial: the program has at least two operators, the two renderings differ as text and both evaluate to a value. Distinct = distinct pair of texts.",
        "assumptions": COMMON_ASSUMPTIONS + [
            "orderby keys are injective functions of the element (ties are exempt by the property)",
        ],
    },
    "C09": {
        "level": "exploration",
        "technique": "property-based testing (rapid): generated patterns x values (instances of the pattern, one-step near-misses, unrelated) in let / function parameter / cond, compared with a structural reference matcher",
        "level_text": "Generated-input search: patterns from number/string literals, names (15% repeated), _, (expr), array patterns with ...rest at any position and trailing "
                      "?fallbacks, tuple and dict patterns with ?: fallbacks and ...rest, nested to depth 2 (thorough 3); values built from the pattern by substitution, a one-step "
                      "mutation of such an instance (element changed/removed/added, offset shifted, kind changed), or unrelated, rendered as sugar or spelled-out literals. The reference matcher "
                      "implements the property literally (the pattern read as an expression must rebuild the value). let and function application must bind exactly the model bindings or fail; "
                      "cond must take the first arm whose pattern matches (two pattern arms + default).",
        "level_note": "Trusted: the reference matcher in c09_test.go (150 lines), rapid. One open known finding pinned by the repository's own tests (dict pattern with a fallback entry tolerates extra keys).",
        "tests": [{"name": "TestC09", "quick": 2500, "thorough": 30000}],
        "rule": "non-trivial: the pattern has a rest, a fallback, a repeated name or an (expr) item, or nesting depth >= 2, or the value is a near-miss. Distinct = distinct program text.",
        "assumptions": COMMON_ASSUMPTIONS + [
            "set patterns and patterns with two rests are not generated (documented as unsupported; C10 checks that they are rejected without a crash)",
        ],
    },
    "C10": {
        "level": "exploration",
        "technique": "property-based testing / fuzzing (rapid): ill-typed generated programs, operators over arbitrary data values, every safe stdlib function on generated arguments, and byte-level edits of programs and hostile constants; oracle = outcome is a value or an ordinary, renderable error",
        "level_text": "Generated-input search in four modes: (1) typed programs with 15-60% of operands replaced by operands of another type; (2) every binary/unary operator applied to "
                      "data values of every kind and representation; (3) every function reachable in the safe standard library tuple (except os/log/net/arrai/deprecated and the recursion "
                      "combinators) applied, curried up to three times, to generated arguments; (4) program texts and ~55 hostile constants with random byte edits. A case fails when "
                      "compile+evaluate panics, does not return within 20 s, returns a value that cannot be printed, or returns an error that cannot be rendered. "
                      "Each distinct panicking function is one known finding (signature panic@<function>); a panic in any other function is a violation.",
        "level_note": "Trusted: recover()+stack parsing in obs, the 20 s bound (three orders of magnitude above normal), rapid. wbnf parse errors are not rendered during the search (rendering "
                      "can take exponential time/memory inside the third-party library; recorded as finding hang@wbnf.ParseError.Error and exercised only by its witness). Native go test -fuzz is not used: "
                      "the first crasher stops it and the tree has dozens of known crashers.",
        "tests": [{"name": "TestC10", "quick": 1500, "thorough": 20000}],
        "rule": "every generated case is non-trivial by construction (ill-typed operand, stdlib call, arbitrary operands or edited text). Distinct = distinct program text.",
        "assumptions": COMMON_ASSUMPTIONS + [
            "programs are non-recursive (no let rec, no //fn.fix): unbounded recursion overflows the Go stack by design of the interpreter",
            "imports are unavailable (empty in-memory filesystems)",
        ],
        "timeout": {"quick": 1500, "thorough": 10800},
    },
    "C07": {
        "level": "exploration",
        "technique": "property-based testing (rapid), differential across fresh processes: generated programs over large collections are evaluated in several new processes (each with its own random hash seeds, each evaluating twice) and the printed results compared byte for byte",
        "level_text": "Generated-input search: batches of 24 programs whose printed result passes through the enumeration of sets of 9-40 members (numbers, strings, tuples, "
                      "mixed kinds, arrays with holes): printing and //str.repr, =>, where, orderby with injective keys, rank with and without ties, nest, joins, sum/max/min/mean, "
                      "dictionaries built by =>, >>, >>>, single, calls on grouped collections, set patterns, plus typed random programs. Every batch is run by 3 (thorough 6) fresh "
                      "evalbatch processes; github.com/arr-ai/hash and frozen draw their seeds at process start, and each process evaluates each program twice to expose "
                      "Go-map-order effects. Any difference in the printed bytes (or value vs error) is a violation; the replay is the single program.",
        "level_note": "Trusted: process isolation as the source of seed variation (seeds come from crypto/rand and are outside the harness's control: detection is probabilistic, a pass never depends on them), rapid. "
                      "Programs never put two values at one sequence index (finding seq-superimposed-index makes the result seed-dependent; excluded by construction).",
        "tests": [{"name": "TestC07", "quick": 12, "thorough": 50}],
        "shards": {"thorough": 8},
        "tools": ["evalbatch"],
        "rule": "every program is non-trivial by construction (its output depends on a collection with >= 9 members, above frozen's 8-element leaf where insertion order stops deciding enumeration order); evaluations counts programs, not batches. Distinct = distinct program text.",
        "assumptions": COMMON_ASSUMPTIONS + [
            "orderby keys are injective; ties are exempt by the property",
        ],
    },
    "C13": {
        "level": "exploration",
        "technique": "property-based testing (rapid): generated JSON/YAML documents, string matrices, integers, bit sets and data values; round trips checked against Go's encoding/json and yaml.v3 as reference parsers and against the value model",
        "level_text": "Generated-input search: JSON documents (nesting <= 3, null, booleans, integers, large/fractional/exponent floats, strings incl. non-ASCII, quotes, controls, "
                      "empty keys and containers) rendered by encoding/json or by a noisy printer (whitespace, \\u escapes, 1.0/1e0 number forms); YAML documents of the same model in block "
                      "and flow style: encode(decode(d)) must parse (with the Go reference parser) to the same content and decode(encode(decode(d))) = decode(d). CSV: decode(encode(m)) = m "
                      "for rectangular matrices over fields with commas, quotes, newlines, leading/trailing blanks, empties. bits: mask(set(n)) = n for n < 2^53 and set(n) equals the bit "
                      "positions; set(mask(S)) = S. Wire format: UnmarshalFromJSON(MarshalToJSON(v)) = v for data values of every kind. Any data value given to strict json/yaml encode is "
                      "either rejected or decodes back to itself.",
        "level_note": "Trusted: encoding/json, gopkg.in/yaml.v3 as reference parsers (numbers compared as float64), the value model, rapid. Three open findings are recorded (two CSV format limits of Go's encoding/csv, strict encode of arbitrary sets pinned by the repository's tests).",
        "tests": [{"name": "TestC13", "quick": 2500, "thorough": 30000}],
        "rule": "non-trivial: document nesting >= 2 or containing null/empty string/empty container; matrix with a field needing quotes; data value of depth >= 2; bits cases always. Distinct = distinct case JSON.",
        "assumptions": COMMON_ASSUMPTIONS + [
            "only the default (strict) JSON/YAML codecs are claimed; the non-strict variants are documented as lossy for empty containers and are not asserted",
            "XML, xlsx, protobuf and archive codecs are outside the property's list and are only exercised for crashes by C10",
        ],
    },
    "C19": {
        "level": "fault_enumeration",
        "technique": "property-based testing (rapid) against a file-tree reference model on an in-memory filesystem, plus exhaustive per-case enumeration of injected I/O errors at every filesystem operation",
        "level_text": "Generated-input search: output dictionaries (nesting <= 3; strings, bytes, empty entries, nested dicts, (file:)/(dir:) tuples with every ifExists value; invalid members at any "
                      "depth: numbers, arrays, tuples without or with both fields, non-string/empty/escaping keys, non-text file payloads, bogus and ill-combined ifExists) are written by "
                      "arrai.OutputValue with --out=dir: onto generated pre-existing trees (overlapping files/directories, kind conflicts) on an afero MemMapFs holding canary files outside the "
                      "target; --out=file: with text and non-text results. Oracle: a file-tree model (invalid anywhere or an ifExists:'fail' hit => error and byte-identical tree; valid => tree equals "
                      "model(prior, description); nothing outside the target changes; a kind conflict without a rule => error, or success). Fault half: for 30% of the valid cases every filesystem "
                      "operation of the run (Mkdir, Create/OpenFile, Write, Sync, RemoveAll) is failed in turn and the command must report failure each time (exhaustive per case).",
        "level_note": "Trusted: the 120-line tree model in c19_test.go, afero MemMapFs as the filesystem, the fault-injecting wrapper, rapid. exhaustive refers to the fault points of each explored run, not to the space of descriptions.",
        "tests": [{"name": "TestC19", "quick": 2000, "thorough": 30000}],
        "exhaustive_key": "fault_points",
        "rule": "non-trivial: the prior tree overlaps the description, or the description is invalid, or it uses at least two different ifExists values. Distinct = distinct case JSON.",
        "assumptions": COMMON_ASSUMPTIONS + [
            "keys containing '/' are not generated (the repository's own tests accept them, relying on the filesystem creating parents)",
            "Close after a successful Sync and Stat errors other than not-exist are not injected",
        ],
    },
    "C20": {
        "level": "exploration",
        "technique": "property-based testing (rapid): generated result trees and test-file layouts on an in-memory filesystem; RunTests' verdict, per-leaf report lines and summary compared with a leaf census computed on the model tree",
        "level_text": "Generated-input search: 0-3 *_test.arrai files in nested directories whose results are trees of tuples, arrays (incl. offset and sparse), dictionaries (string "
                      "and non-string keys, multi-valued keys) nested to depth 3 with leaves true / false / number / string / set / relation / byte array, rendered through sugar, spelled-out and "
                      "computed construction paths; plus files in hidden directories and non-test files (must be ignored, even with garbage content) and test files that fail to compile or evaluate. "
                      "Oracle: RunTests returns nil iff there is at least one test file, all evaluate and every leaf is the literal true; the report has exactly one PASS/FAIL/?? line per leaf, the "
                      "summary counts equal the census, and (for trees of tuples, dense arrays and string-keyed dicts) the multiset of reported leaf paths equals the model's.",
        "level_note": "Trusted: the 40-line leaf census in c20_test.go (containers = tuples, arrays, dictionaries; everything else, including {} and [], is a leaf), afero MemMapFs, rapid. "
                      "Unparseable test files use syntax errors whose message renders quickly; most syntax errors hit finding hang@wbnf.ParseError.Error (C10), which would wedge the run.",
        "tests": [{"name": "TestC20", "quick": 1500, "thorough": 20000}],
        "rule": "non-trivial: at least two test files, or a tree of depth >= 3, or an offset/sparse array in the tree. Distinct = distinct case JSON.",
        "assumptions": COMMON_ASSUMPTIONS,
    },
    "C16": {
        "level": "exploration",
        "technique": "property-based testing / fuzzing (rapid): generated import path strings, import graphs and module layouts on a recording in-memory filesystem that serves a canary for every path outside the allowed root",
        "level_text": "Generated-input search: module trees with or without go.mod, main scripts at three directory depths, and (a) 1-3 local imports whose path strings are built from "
                      "segments {., .., names, empty, blank-padded names, ..., backslashes, tabs, %2e%2e} with ./, /, doubled and blank-padded prefixes and suffixes; (b) the same data file imported by "
                      "2-7 different spellings and through different importers; (c) import graphs with self-, 2- and 3-cycles, directly or through a diamond. The source filesystem records every content "
                      "read and answers any read outside the module root (the script's directory when there is no module) with a canary file. Oracle: no read outside the root, the canary never appears in "
                      "the result, no panic, all spellings of one file give Equal values, a cyclic graph yields an error within 20 s (a goroutine parked in the import cache is the violation).",
        "level_note": "Trusted: the recording filesystem wrapper (Stat of go.mod while walking up is not a read), afero MemMapFs, the 20 s bound, rapid. External (module/network) imports are excluded: they cannot be exercised offline.",
        "tests": [{"name": "TestC16", "quick": 1500, "thorough": 25000}],
        "rule": "non-trivial: a path containing '..' or rooted at '/', or a main script below the root, or a consistency/cycle case. Distinct = distinct case JSON.",
        "assumptions": COMMON_ASSUMPTIONS,
    },
    "C15": {
        "level": "exploration",
        "technique": "property-based testing (rapid), differential: generated module layouts are evaluated from source and as a bundle built by bundle.BundledScripts; values compared, bundle runs watched by filesystems that must stay untouched",
        "level_text": "Generated-input search: layouts on an in-memory filesystem with or without go.mod (several module names), up to four directories incl. names with spaces and "
                      "non-ASCII letters, an optional second module nested in the first, 1-5 scripts forming an import DAG (diamonds included) through relative ./ and module-rooted / imports, "
                      "with and without the .arrai suffix, JSON/YAML/text data files through implicit and explicit decoders, the main file at any position, occasionally a missing import. "
                      "Oracle: source evaluation and EvaluateBundleCtx on the archive give Equal values with the same printed form, or both fail; bundling may not fail when the source evaluates; "
                      "the bundle is run from three working directories with recording source/runtime filesystems that must see no call; every file the source run opened has an entry in the archive.",
        "level_note": "Trusted: afero MemMapFs, the recording filesystems, rapid. Module (go mod download) and URL imports are out of reach offline and excluded.",
        "tests": [{"name": "TestC15", "quick": 600, "thorough": 10000}],
        "rule": "non-trivial: at least two directories and two import forms, or a data-file import, or no go.mod. Distinct = distinct case JSON.",
        "assumptions": COMMON_ASSUMPTIONS,
    },
    "C18": {
        "level": "exploration",
        "technique": "property-based testing / fuzzing (rapid): generated sandbox configurations x escape-attempt sources; oracle = reference decision 'is every reference in the configured library/scope' plus capability and canary checks on the result and on recording filesystems",
        "level_text": "Generated-input search: sandboxes created with //eval.eval (default safe library) and //eval.evaluator(config).eval for configs with a scope, a proper sub-tuple "
                      "of the library (1-3 whole packages), the empty library, or both; sources reference one of 13 library members (text, sequence, math, bits, codecs, relational, os.file, "
                      "os.exists, net.http.get/post, deprecated.exec) directly, inside a collection, through let, through an applied lambda, through a lambda that is returned and applied outside, "
                      "through a nested //eval.eval, through //eval.value, by walking //std.safe, by naming a sandbox-scope or an outer-scope variable, or through import syntax. Oracle: the harness "
                      "decides from the configuration whether every reference is available: available => the program evaluates; otherwise it must fail. Independently the result may never print the "
                      "outer secret, canary file content or a native file/network/exec function that was not passed in, and the recording source/runtime filesystems may see no read.",
        "level_note": "Trusted: the availability decision in genC18 (a walk of SafeStdScopeTuple for the default configuration), function markers in printed values, recording filesystems, rapid. "
                      "Three open known findings (eval.value route, exec in the safe library, import syntax) are excused by the route the generated source takes, not by the outcome.",
        "tests": [{"name": "TestC18", "quick": 1500, "thorough": 25000}],
        "rule": "non-trivial: any shape other than a direct reference, or a custom library. Distinct = distinct program text.",
        "assumptions": COMMON_ASSUMPTIONS + [
            "os.exists/os.tree (file metadata) are in the safe library by design and are not counted as file-reading functions",
        ],
    },
    "C17": {
        "level": "exploration",
        "technique": "property-based testing (rapid), model-based: generated histories of update/observe/cancel/hangup against a 40-line sequential reference model of the engine, plus concurrent clients checked by history predicates",
        "level_text": "Generated-input search. Sequential mode: histories of 3-25 operations on engine.Start(): updates (good, failing, referring to $), observers (good, failing "
                      "immediately, failing only on later states, with callbacks that return an error on their n-th call), cancel (also twice and after hang-up), Hangup, always followed by a "
                      "further update. Every call must return within 10 s; after every operation each observer must have been sent exactly the values its expression has on the states installed since "
                      "it subscribed (initial notification included), in order; an Update is answered with an error iff its expression fails on the current state. Concurrent mode: 2-4 client "
                      "goroutines each write c<i>: 1..k into $ while 1-3 observers watch: all updates acknowledged, every observer stream changes exactly one client's counter by +1 per state, "
                      "ends with every counter at k, and all observers saw the same order.",
        "level_note": "Trusted: the reference model in c17_test.go (expression values are computed with the real evaluator on the model's state; the protocol is what is modelled), "
                      "the 10 s bound, rapid. A history that kills the process is captured through a pending-case file and reported as a violation. Interleavings are those the Go scheduler produces.",
        "tests": [{"name": "TestC17", "quick": 250, "thorough": 4000}],
        "rule": "non-trivial: the history has a failing observer or callback, a double cancel, or a hang-up (each followed by at least one more update), or it is concurrent. Distinct = distinct case JSON.",
        "assumptions": COMMON_ASSUMPTIONS,
    },
}
