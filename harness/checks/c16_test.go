package checks

import (
	"context"
	"encoding/json"
	"fmt"
	"os"
	"path"
	"sort"
	"strings"
	"sync"
	"testing"
	"time"

	"github.com/spf13/afero"
	"pgregory.net/rapid"

	"github.com/arr-ai/arrai/pkg/ctxfs"
	"github.com/arr-ai/arrai/pkg/ctxrootcache"
	"github.com/arr-ai/arrai/rel"
	"github.com/arr-ai/arrai/syntax"

	"verif/obs"
)

// C16 — local imports stay inside the module, are consistent, and cycles fail fast.

type importCase struct {
	// Files: path -> content of the source tree (all below /w/mod unless noted)
	Files map[string]string `json:"files"`
	// Main is the script that is evaluated; Root the directory imports must stay below
	Main string `json:"main"`
	Root string `json:"root"`
	Kind string `json:"kind"` // paths consistency cycle
	// Same lists groups of indices of the result array that must be equal (consistency)
	Same [][]int `json:"same,omitempty"`
}

const canaryText = "CANARY-7f3a"

// recFs records every content read and serves the canary for any path outside
// the allowed root, so that an import that escapes reads it.
type recFs struct {
	afero.Fs
	root  string
	mu    sync.Mutex
	reads []string
}

func (f *recFs) outside(name string) bool {
	name = path.Clean(name)
	if f.root == "/" {
		return false
	}
	return name != f.root && !strings.HasPrefix(name, f.root+"/")
}

func (f *recFs) note(name string) {
	f.mu.Lock()
	f.reads = append(f.reads, path.Clean(name))
	f.mu.Unlock()
}

func (f *recFs) canary(name string) (afero.File, error) {
	mem := afero.NewMemMapFs()
	_ = afero.WriteFile(mem, "/c", []byte(`"`+canaryText+`"`), 0o644)
	return mem.Open("/c")
}

func (f *recFs) Open(name string) (afero.File, error) {
	if f.outside(name) && path.Base(name) != "go.mod" {
		f.note(name)
		return f.canary(name)
	}
	if path.Base(name) != "go.mod" {
		if info, err := f.Fs.Stat(name); err == nil && !info.IsDir() {
			f.note(name)
		}
	}
	return f.Fs.Open(name)
}

func (f *recFs) OpenFile(name string, flag int, perm os.FileMode) (afero.File, error) {
	if f.outside(name) && path.Base(name) != "go.mod" {
		f.note(name)
		return f.canary(name)
	}
	return f.Fs.OpenFile(name, flag, perm)
}

var pathSegs = []string{".", "..", "sub", "deep", "a", "b", "secret", "", " ", "a ", " a", "...", "..a", "mod", "w", "\\", "..\\", "%2e%2e", "\t"}

func genImportPath(t *rapid.T) string {
	n := rapid.IntRange(1, 5).Draw(t, "nseg")
	segs := make([]string, n)
	for i := range segs {
		segs[i] = pick(t, "seg", pathSegs...)
	}
	p := strings.Join(segs, "/")
	prefix := pick(t, "prefix", "./", "./", "/", "/", ".//", "//", "./ ", "/ ")
	p = prefix + p
	if chance(t, "suffix", 30) {
		p += pick(t, "sfx", ".arrai", "/", "/.", ".json")
	}
	if chance(t, "pad", 10) {
		p = " " + p + " "
	}
	// the path lives inside //{...}: braces and backslashes end or escape it
	p = strings.ReplaceAll(p, "}", "")
	return p
}

func genC16(t *rapid.T) (importCase, bool, []string) {
	c := importCase{Files: map[string]string{}}
	hasMod := chance(t, "gomod", 70)
	c.Root = "/w/mod"
	if hasMod {
		c.Files["/w/mod/go.mod"] = "module github.com/x/y\n"
	}
	// ordinary files inside the module
	c.Files["/w/mod/a.arrai"] = `"A"`
	c.Files["/w/mod/b.arrai"] = `(b: //{./a})`
	c.Files["/w/mod/sub/a.arrai"] = `"SUBA"`
	c.Files["/w/mod/sub/deep/a.arrai"] = `"DEEPA"`
	c.Files["/w/mod/sub/deep/b.arrai"] = `[//{./a}, 2]`
	c.Files["/w/mod/secret.arrai"] = `"inside"`
	dir := pick(t, "maindir", "/w/mod", "/w/mod/sub", "/w/mod/sub/deep")
	c.Main = dir + "/main.arrai"
	if !hasMod {
		// without a module the script's own directory is the boundary
		c.Root = dir
	}
	kind := pick(t, "kind", "paths", "paths", "paths", "consistency", "cycle")
	c.Kind = kind
	classes := []string{"kind:" + kind, fmt.Sprintf("gomod:%v", hasMod), "maindir:" + strings.TrimPrefix(dir, "/w/")}
	nt := true
	switch kind {
	case "paths":
		n := rapid.IntRange(1, 3).Draw(t, "npaths")
		var items []string
		for i := 0; i < n; i++ {
			p := genImportPath(t)
			items = append(items, "//{"+p+"}")
			if strings.Contains(p, "..") {
				classes = append(classes, "path:dotdot")
			}
		}
		c.Files[c.Main] = "[" + strings.Join(items, ", ") + "]"
		nt = strings.Contains(c.Files[c.Main], "..") || strings.Contains(c.Files[c.Main], "//{/") || dir != "/w/mod"
	case "consistency":
		if !hasMod {
			// rooted imports need a module; use relative spellings only
			c.Files[c.Main] = "[//{./a}, //{./a.arrai}, //{././a}, //{./x/../a}]"
			c.Files[dir+"/a.arrai"] = `(v: [1, {2: "x"}])`
			c.Same = [][]int{{0, 1, 2, 3}}
			break
		}
		// the same file by different spellings and through different importers
		c.Files["/w/mod/sub/v.arrai"] = `(v: [1, {2: "x"}], w: //{./deep/a})`
		c.Files["/w/mod/imp1.arrai"] = `//{./sub/v}`
		c.Files["/w/mod/sub/imp2.arrai"] = `//{/sub/v}`
		spell := map[string][]string{
			"/w/mod":          {"//{./sub/v}", "//{/sub/v}", "//{./sub/v.arrai}", "//{/sub/../sub/v}", "//{./imp1}", "//{./sub/imp2}", "//{./sub/./v}"},
			"/w/mod/sub":      {"//{./v}", "//{/sub/v}", "//{./v.arrai}", "//{./deep/../v}", "//{/imp1}", "//{./imp2}"},
			"/w/mod/sub/deep": {"//{/sub/v}", "//{/sub/v.arrai}", "//{/imp1}", "//{/sub/imp2}"},
		}[dir]
		k := rapid.IntRange(2, len(spell)).Draw(t, "nspell")
		chosen := rapid.Permutation(spell).Draw(t, "spellperm")[:k]
		c.Files[c.Main] = "[" + strings.Join(chosen, ", ") + "]"
		group := make([]int, k)
		for i := range group {
			group[i] = i
		}
		c.Same = [][]int{group}
	default: // cycle
		n := rapid.IntRange(1, 3).Draw(t, "cyclelen")
		names := []string{"c0", "c1", "c2"}[:n]
		for i, name := range names {
			next := names[(i+1)%n]
			body := "//{./" + next + "}"
			if chance(t, "wrapped", 50) {
				body = "(x: 1, y: [" + body + "])"
			}
			c.Files[dir+"/"+name+".arrai"] = body
		}
		entry := "//{./c0}"
		if chance(t, "diamond", 40) {
			// the cycle is reachable through two paths
			c.Files[dir+"/d1.arrai"] = "//{./c0}"
			c.Files[dir+"/d2.arrai"] = "//{./c0}"
			entry = "[//{./d1}, //{./d2}]"
			classes = append(classes, "cycle:diamond")
		}
		c.Files[c.Main] = entry
		classes = append(classes, fmt.Sprintf("cycle:len%d", n))
	}
	return c, nt, uniq(classes)
}

func containsCanary(v rel.Value) bool {
	return strings.Contains(obs.Repr(v), canaryText)
}

var leakedImports int

func checkImportCase(c importCase) *Failure {
	fail := func(sig, format string, args ...interface{}) *Failure {
		if known("C16", sig) {
			return nil
		}
		var listing []string
		for p, src := range c.Files {
			listing = append(listing, "  "+p+": "+src)
		}
		sort.Strings(listing)
		return mkFailure("C16", "C16/imports", sig, fmt.Sprintf("main: %s (allowed root %s)\n%s\n", c.Main, c.Root, strings.Join(listing, "\n"))+fmt.Sprintf(format, args...), c)
	}
	mem := afero.NewMemMapFs()
	for p, src := range c.Files {
		_ = mem.MkdirAll(path.Dir(p), 0o755)
		_ = afero.WriteFile(mem, p, []byte(src), 0o644)
	}
	rec := &recFs{Fs: mem, root: c.Root}
	ctx := ctxfs.SourceFsOnto(context.Background(), rec)
	ctx = ctxfs.RuntimeFsOnto(ctx, afero.NewMemMapFs())
	ctx = ctxrootcache.WithRootCache(ctx)
	ch := make(chan obs.Outcome2, 1)
	go func() {
		ch <- func() (out obs.Outcome2) {
			defer func() {
				if r := recover(); r != nil {
					out = obs.Outcome2{Outcome: obs.Outcome{Kind: "panic", Panic: fmt.Sprint(r)}}
				}
			}()
			v, err := syntax.EvaluateExpr(ctx, c.Main, c.Files[c.Main])
			if err != nil {
				return obs.Outcome2{Outcome: obs.Outcome{Kind: "error"}, ErrObj: err}
			}
			return obs.Outcome2{Outcome: obs.Outcome{Kind: "value", Value: v}}
		}()
	}()
	var out obs.Outcome2
	select {
	case out = <-ch:
	case <-time.After(hangBound):
		leakedImports++
		stacks := obs.AllStacks()
		where := "?"
		if strings.Contains(stacks, "importcache") {
			where = "importcache.getOrAdd (waiting for its own in-flight import)"
		}
		return fail("import-cycle-hangs", "evaluation did not finish within %v; a goroutine is parked in %s", hangBound, where)
	}
	rec.mu.Lock()
	reads := append([]string{}, rec.reads...)
	rec.mu.Unlock()
	for _, p := range reads {
		if rec.outside(p) {
			return fail("", "the evaluation read %s, which is outside %s\nall reads: %v\noutcome: %s", p, c.Root, reads, out.Kind)
		}
	}
	if out.Kind == "panic" {
		return fail("", "evaluation panicked: %s", out.Panic)
	}
	if out.Kind == "value" && containsCanary(out.Value) {
		return fail("", "the result contains the content of a file outside %s: %s", c.Root, obs.Repr(out.Value))
	}
	switch c.Kind {
	case "cycle":
		if out.Kind == "value" {
			return fail("", "an import cycle evaluated to a value: %s", obs.Repr(out.Value))
		}
	case "consistency":
		if out.Kind != "value" {
			msg := ""
			if out.ErrObj != nil && !isParseError(out.ErrObj) {
				msg = firstLine(out.ErrObj.Error())
			}
			return fail("", "importing the same file by several spellings failed: %s", msg)
		}
		arr, ok := out.Value.(rel.Array)
		if !ok {
			return fail("", "unexpected result %s", obs.Repr(out.Value))
		}
		for _, group := range c.Same {
			for _, i := range group[1:] {
				a, b := arr.Values()[group[0]], arr.Values()[i]
				if !a.Equal(b) || !b.Equal(a) {
					return fail("", "the same file imported by two spellings gives different values: item %d = %s, item %d = %s", group[0], obs.Repr(a), i, obs.Repr(b))
				}
			}
		}
	}
	return nil
}

func init() {
	register("C16/imports", func(raw json.RawMessage) *Failure {
		var c importCase
		if err := json.Unmarshal(raw, &c); err != nil {
			return &Failure{Property: "C16", Check: "C16/imports", Detail: "bad case: " + err.Error()}
		}
		return checkImportCase(c)
	})
}

func TestC16(t *testing.T) {
	rapid.Check(t, func(t *rapid.T) {
		c, nt, classes := genC16(t)
		if leakedImports > 3 {
			t.Fatalf("too many stuck evaluations in this process")
		}
		raw, _ := json.Marshal(c)
		stats.Case(nt, string(raw), classes...)
		report(t, checkImportCase(c))
	})
}
