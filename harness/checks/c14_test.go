package checks

import (
	"encoding/json"
	"fmt"
	"strings"
	"testing"

	"pgregory.net/rapid"

	"verif/model"
)

// C14 — //seq functions give the same answer for strings, byte arrays and
// arrays, and each agrees with its textbook definition.

type seqKind int

const (
	seqStr seqKind = iota
	seqBytes
	seqArr
)

func (k seqKind) String() string { return [...]string{"string", "bytes", "array"}[k] }

// encSrc / encVal: the three encodings of an abstract sequence over small ints.
func encSrc(k seqKind, xs []int) string {
	switch k {
	case seqStr:
		var sb strings.Builder
		sb.WriteByte('"')
		for _, x := range xs {
			sb.WriteByte(byte('a' + x))
		}
		sb.WriteByte('"')
		return sb.String()
	case seqBytes:
		parts := make([]string, len(xs))
		for i, x := range xs {
			parts[i] = fmt.Sprint('a' + x)
		}
		return "<<" + strings.Join(parts, ", ") + ">>"
	}
	parts := make([]string, len(xs))
	for i, x := range xs {
		parts[i] = fmt.Sprint(x)
	}
	return "[" + strings.Join(parts, ", ") + "]"
}

func encVal(k seqKind, xs []int) *model.V {
	items := make([]*model.V, len(xs))
	for i, x := range xs {
		if k == seqArr {
			items[i] = model.Num(float64(x))
		} else {
			items[i] = model.Num(float64('a' + x))
		}
	}
	return model.Seq([...]string{"@char", "@byte", "@item"}[k], 0, items...)
}

func encListSrc(k seqKind, xss [][]int) string {
	parts := make([]string, len(xss))
	for i, xs := range xss {
		parts[i] = encSrc(k, xs)
	}
	return "[" + strings.Join(parts, ", ") + "]"
}

func encListVal(k seqKind, xss [][]int) *model.V {
	items := make([]*model.V, len(xss))
	for i, xs := range xss {
		items[i] = encVal(k, xs)
	}
	return model.Arr(0, items...)
}

// --- textbook definitions on []int -----------------------------------------

func refIndex(s, sub []int) int {
	for i := 0; i+len(sub) <= len(s); i++ {
		ok := true
		for j := range sub {
			if s[i+j] != sub[j] {
				ok = false
				break
			}
		}
		if ok {
			return i
		}
	}
	return -1
}

func refHasPrefix(s, p []int) bool { return len(p) <= len(s) && refIndex(s[:len(p)], p) == 0 }
func refHasSuffix(s, p []int) bool {
	return len(p) <= len(s) && refIndex(s[len(s)-len(p):], p) == 0
}

func refSplit(s, d []int) [][]int {
	if len(d) == 0 {
		out := [][]int{}
		for _, x := range s {
			out = append(out, []int{x})
		}
		return out
	}
	out := [][]int{}
	for {
		i := refIndex(s, d)
		if i < 0 {
			return append(out, s)
		}
		out = append(out, s[:i])
		s = s[i+len(d):]
	}
}

func refJoin(j []int, parts [][]int) []int {
	out := []int{}
	for i, p := range parts {
		if i > 0 {
			out = append(out, j...)
		}
		out = append(out, p...)
	}
	return out
}

func refSub(s, old, new []int) []int {
	out := []int{}
	if len(old) == 0 {
		for _, x := range s {
			out = append(append(out, new...), x)
		}
		return append(out, new...)
	}
	for {
		i := refIndex(s, old)
		if i < 0 {
			return append(out, s...)
		}
		out = append(append(out, s[:i]...), new...)
		s = s[i+len(old):]
	}
}

// properOverlap: pattern has a border (a proper prefix that is also a suffix)
// or the subject contains a failed partial match before a later full match.
func hasBorder(p []int) bool {
	for l := 1; l < len(p); l++ {
		if refIndex(p[len(p)-l:], p[:l]) == 0 {
			return true
		}
	}
	return false
}

func partialThenMatch(s, p []int) bool {
	i := refIndex(s, p)
	if i <= 0 || len(p) < 2 {
		return false
	}
	for j := 0; j < i; j++ {
		if s[j] == p[0] {
			return true
		}
	}
	return false
}

// --- generator --------------------------------------------------------------

type seqCase struct {
	EvalCase
	Fn   string `json:"fn"`
	Kind string `json:"kind"`
}

func genInts(t *rapid.T, label string, maxLen int) []int {
	n := rapid.IntRange(0, maxLen).Draw(t, label+"_len")
	xs := make([]int, n)
	for i := range xs {
		// alphabet {1,2} with a rare 3: overlaps and repeated prefixes are the norm
		if rapid.IntRange(0, 9).Draw(t, label) == 0 {
			xs[i] = 3
		} else {
			xs[i] = rapid.IntRange(1, 2).Draw(t, label)
		}
	}
	return xs
}

var seqFns = []string{"contains", "has_prefix", "has_suffix", "trim_prefix", "trim_suffix", "split", "join", "join_split", "sub", "repeat", "concat"}

func genSeqCase(t *rapid.T) (seqCase, bool, []string) {
	maxS, maxP := 8, 4
	if thorough() {
		maxS, maxP = 12, 5
	}
	k := seqKind(rapid.IntRange(0, 2).Draw(t, "kind"))
	fn := pick(t, "fn", seqFns...)
	s := genInts(t, "s", maxS)
	p := genInts(t, "p", maxP)
	// make patterns that actually occur frequent: half of the time take p from s
	if len(s) > 0 && chance(t, "p_from_s", 50) {
		i := rapid.IntRange(0, len(s)-1).Draw(t, "pi")
		j := rapid.IntRange(i, min(len(s), i+maxP)).Draw(t, "pj")
		p = append([]int{}, s[i:j]...)
	}
	c := seqCase{Fn: fn, Kind: k.String()}
	nt := len(p) == 0 || len(s) == 0 || (len(p) >= 2 && hasBorder(p)) || partialThenMatch(s, p)
	classes := []string{"fn:" + fn, "kind:" + k.String()}
	val := func(v *model.V) { c.Expect = v.Key() }
	switch fn {
	case "contains":
		c.Src = fmt.Sprintf("//seq.contains(%s, %s)", encSrc(k, p), encSrc(k, s))
		val(model.Bool(refIndex(s, p) >= 0))
	case "has_prefix":
		c.Src = fmt.Sprintf("//seq.has_prefix(%s, %s)", encSrc(k, p), encSrc(k, s))
		val(model.Bool(refHasPrefix(s, p)))
	case "has_suffix":
		c.Src = fmt.Sprintf("//seq.has_suffix(%s, %s)", encSrc(k, p), encSrc(k, s))
		val(model.Bool(refHasSuffix(s, p)))
	case "trim_prefix":
		c.Src = fmt.Sprintf("//seq.trim_prefix(%s, %s)", encSrc(k, p), encSrc(k, s))
		r := s
		if refHasPrefix(s, p) {
			r = s[len(p):]
		}
		val(encVal(k, r))
	case "trim_suffix":
		c.Src = fmt.Sprintf("//seq.trim_suffix(%s, %s)", encSrc(k, p), encSrc(k, s))
		r := s
		if refHasSuffix(s, p) {
			r = s[:len(s)-len(p)]
		}
		val(encVal(k, r))
	case "split":
		c.Src = fmt.Sprintf("//seq.split(%s, %s)", encSrc(k, p), encSrc(k, s))
		if len(s) == 0 && len(p) == 0 {
			val(model.None)
		} else {
			val(encListVal(k, refSplit(s, p)))
		}
	case "join":
		n := rapid.IntRange(0, 4).Draw(t, "nparts")
		parts := make([][]int, n)
		for i := range parts {
			parts[i] = genInts(t, "part", 3)
		}
		c.Src = fmt.Sprintf("//seq.join(%s, %s)", encSrc(k, p), encListSrc(k, parts))
		if k == seqBytes {
			// join on byte arrays is undocumented: only required not to crash
			c.Expect = expectNoPanic
			classes = append(classes, "out-of-scope-pair")
		} else {
			val(encVal(k, refJoin(p, parts)))
		}
		nt = n >= 2 || len(p) == 0
		for _, part := range parts {
			if len(part) == 0 {
				nt = true
			}
		}
	case "join_split":
		// join inverts split
		c.Src = fmt.Sprintf("let d = %s; //seq.join(d, //seq.split(d, %s))", encSrc(k, p), encSrc(k, s))
		if k == seqBytes {
			c.Expect = expectNoPanic
			classes = append(classes, "out-of-scope-pair")
		} else {
			val(encVal(k, s))
		}
	case "sub":
		q := genInts(t, "new", 3)
		c.Src = fmt.Sprintf("//seq.sub(%s, %s, %s)", encSrc(k, p), encSrc(k, q), encSrc(k, s))
		val(encVal(k, refSub(s, p, q)))
	case "repeat":
		n := rapid.IntRange(0, 3).Draw(t, "n")
		c.Src = fmt.Sprintf("//seq.repeat(%d, %s)", n, encSrc(k, s))
		if k == seqBytes && len(s) > 0 {
			// documented for strings and arrays only; byte arrays are rejected
			c.Expect = expectNoPanic
			classes = append(classes, "out-of-scope-pair")
		} else {
			var r []int
			for i := 0; i < n; i++ {
				r = append(r, s...)
			}
			val(encVal(k, r))
		}
		nt = n != 1
	case "concat":
		n := rapid.IntRange(0, 4).Draw(t, "nparts")
		parts := make([][]int, n)
		for i := range parts {
			parts[i] = genInts(t, "part", 3)
		}
		c.Src = fmt.Sprintf("//seq.concat(%s)", encListSrc(k, parts))
		val(encVal(k, refJoin(nil, parts)))
		nt = n >= 2
	}
	return c, nt, classes
}

func checkSeqCase(c seqCase) *Failure {
	kind, detail, _ := evalMismatch(c.EvalCase)
	if kind == "" {
		return nil
	}
	return mkFailure("C14", "C14/seqfn", "", detail, c)
}

func init() {
	register("C14/seqfn", func(raw json.RawMessage) *Failure {
		var c seqCase
		if err := json.Unmarshal(raw, &c); err != nil {
			return &Failure{Property: "C14", Check: "C14/seqfn", Detail: "bad case: " + err.Error()}
		}
		return checkSeqCase(c)
	})
}

func TestC14(t *testing.T) {
	rapid.Check(t, func(t *rapid.T) {
		c, nt, classes := genSeqCase(t)
		stats.Case(nt, c.Src, classes...)
		report(t, checkSeqCase(c))
	})
}
