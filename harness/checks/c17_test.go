package checks

import (
	"encoding/json"
	"fmt"
	"os"
	"strings"
	"sync"
	"testing"
	"time"

	"pgregory.net/rapid"

	"github.com/arr-ai/arrai/engine"
	"github.com/arr-ai/arrai/rel"
	"github.com/arr-ai/arrai/syntax"

	"verif/obs"
)

// C17 — the server engine applies updates atomically, in order, and never wedges.

type engineOp struct {
	Op   string `json:"op"` // update observe cancel hangup
	Expr string `json:"expr,omitempty"`
	// Obs: index of the observer for cancel; FailAfter: onupdate returns an error on the n-th call (0 = never)
	Obs       int `json:"obs,omitempty"`
	FailAfter int `json:"fail_after,omitempty"`
}

type engineCase struct {
	Mode string     `json:"mode"` // sequential concurrent
	Ops  []engineOp `json:"ops,omitempty"`
	// concurrent mode
	Clients int `json:"clients,omitempty"`
	PerCli  int `json:"per_client,omitempty"`
	Obsvrs  int `json:"observers,omitempty"`
}

var (
	updateExprs  = []string{`(n: 1)`, `(n: 2, m: 1)`, `$ +> (n: 3)`, `(k: [1, 2])`, `{}`, `$`, `(n: 1)`, `$ +> (m: 7)`}
	badUpdates   = []string{`1(2)`, `$.nope.deeper`, `(a: 1).b`}
	observeExprs = []string{`$`, `$`, `[$]`, `$.n`, `$.m`, `(got: $)`, `1(2)`, `$.n + 1`}
)

func genC17(t *rapid.T) (engineCase, bool, []string) {
	if chance(t, "concurrent", 25) {
		c := engineCase{Mode: "concurrent", Clients: rapid.IntRange(2, 4).Draw(t, "clients"), PerCli: rapid.IntRange(3, 12).Draw(t, "per"), Obsvrs: rapid.IntRange(1, 3).Draw(t, "obs")}
		return c, true, []string{"mode:concurrent", fmt.Sprintf("clients:%d", c.Clients)}
	}
	c := engineCase{Mode: "sequential"}
	n := rapid.IntRange(3, 25).Draw(t, "nops")
	nobs := 0
	classes := map[string]bool{"mode:sequential": true}
	cancelled := map[int]int{}
	for i := 0; i < n; i++ {
		switch k := rapid.IntRange(0, 11).Draw(t, "opkind"); {
		case k <= 4:
			e := pick(t, "upd", updateExprs...)
			if chance(t, "badupdate", 15) {
				e = pick(t, "badupd", badUpdates...)
				classes["failing-update"] = true
			}
			c.Ops = append(c.Ops, engineOp{Op: "update", Expr: e})
		case k <= 8:
			op := engineOp{Op: "observe", Expr: pick(t, "obsx", observeExprs...)}
			if chance(t, "cbfail", 20) {
				op.FailAfter = rapid.IntRange(1, 3).Draw(t, "failafter")
				classes["failing-callback"] = true
			}
			c.Ops = append(c.Ops, op)
			nobs++
		case k <= 10 && nobs > 0:
			o := rapid.IntRange(0, nobs-1).Draw(t, "which")
			c.Ops = append(c.Ops, engineOp{Op: "cancel", Obs: o})
			cancelled[o]++
			if cancelled[o] >= 2 {
				classes["double-cancel"] = true
			}
		default:
			c.Ops = append(c.Ops, engineOp{Op: "hangup"})
			classes["hangup"] = true
		}
	}
	// always end with an update so that survivors are exercised after the last disturbance
	c.Ops = append(c.Ops, engineOp{Op: "update", Expr: `(n: 9, m: 9)`})
	var cl []string
	for k := range classes {
		cl = append(cl, k)
	}
	nt := classes["failing-callback"] || classes["double-cancel"] || classes["hangup"] || strings.Contains(fmt.Sprint(c.Ops), "1(2)") || strings.Contains(fmt.Sprint(c.Ops), "$.n") || strings.Contains(fmt.Sprint(c.Ops), "$.m")
	return c, nt, cl
}

// call runs f and reports whether it returned within the bound.
func callWithin(d time.Duration, f func()) bool {
	done := make(chan struct{})
	go func() { f(); close(done) }()
	select {
	case <-done:
		return true
	case <-time.After(d):
		return false
	}
}

type modelObserver struct {
	expr      rel.Expr
	src       string
	alive     bool
	failAfter int
	calls     int
	want      []string // printed values it must have been sent
	mu        sync.Mutex
	got       []string
	closed    int
	cancel    func()
}

const engineBound = 10 * time.Second

func compileExpr(src string) rel.Expr {
	e, err := syntax.Compile(obs.Ctx(), syntax.NoPath, src)
	if err != nil {
		panic("C17 generator produced uncompilable source " + src + ": " + err.Error())
	}
	return e
}

func checkEngineCase(c engineCase) *Failure {
	markPending(c)
	defer clearPending()
	if c.Mode == "concurrent" {
		return checkEngineConcurrent(c)
	}
	fail := func(format string, args ...interface{}) *Failure {
		var hist []string
		for i, op := range c.Ops {
			hist = append(hist, fmt.Sprintf("  %2d %s %s obs=%d failAfter=%d", i, op.Op, op.Expr, op.Obs, op.FailAfter))
		}
		return mkFailure("C17", "C17/engine", "", "history:\n"+strings.Join(hist, "\n")+"\n"+fmt.Sprintf(format, args...), c)
	}
	eng := engine.Start()
	defer func() { go eng.Stop() }()
	ctx := obs.Ctx()
	state := rel.Value(rel.None)
	evalOn := func(e rel.Expr, st rel.Value) (v rel.Value, err error) {
		defer func() {
			if r := recover(); r != nil {
				err = fmt.Errorf("panic: %v", r)
			}
		}()
		return e.Eval(ctx, rel.EmptyScope.With("$", st))
	}
	var observers []*modelObserver
	// deliver applies the model's notification rule for one observer and the current state
	deliver := func(o *modelObserver) {
		if !o.alive {
			return
		}
		v, err := evalOn(o.expr, state)
		if err != nil {
			o.alive = false
			return
		}
		o.want = append(o.want, obs.Repr(v))
		o.calls++
		if o.failAfter > 0 && o.calls >= o.failAfter {
			o.alive = false
		}
	}
	for i, op := range c.Ops {
		switch op.Op {
		case "update":
			e := compileExpr(op.Expr)
			var err error
			if !callWithin(engineBound, func() { err = eng.Update(e) }) {
				return fail("op %d: Update(%s) was never answered (the engine is wedged)\n%s", i, op.Expr, firstRepoFrames(obs.AllStacks()))
			}
			v, merr := evalOn(e, state)
			if (err == nil) != (merr == nil) {
				return fail("op %d: Update(%s) answered %v, but evaluating it on the current state gives %v", i, op.Expr, err, merr)
			}
			if merr == nil {
				state = v
				for _, o := range observers {
					deliver(o)
				}
			}
		case "observe":
			o := &modelObserver{expr: compileExpr(op.Expr), src: op.Expr, alive: true, failAfter: op.FailAfter}
			observers = append(observers, o)
			if !callWithin(engineBound, func() {
				o.cancel = eng.Observe(o.expr, func(v rel.Value) error {
					o.mu.Lock()
					defer o.mu.Unlock()
					o.got = append(o.got, obs.Repr(v))
					if o.failAfter > 0 && len(o.got) >= o.failAfter {
						return fmt.Errorf("observer gives up")
					}
					return nil
				}, func(error) {
					o.mu.Lock()
					o.closed++
					o.mu.Unlock()
				})
			}) {
				return fail("op %d: Observe(%s) never returned (the engine is wedged)\n%s", i, op.Expr, firstRepoFrames(obs.AllStacks()))
			}
			deliver(o) // the initial notification with the current state
		case "cancel":
			o := observers[op.Obs]
			if !callWithin(engineBound, func() { o.cancel() }) {
				return fail("op %d: cancelling observer %d never returned (the engine is wedged)\n%s", i, op.Obs, firstRepoFrames(obs.AllStacks()))
			}
			o.alive = false
		case "hangup":
			if !callWithin(engineBound, func() { eng.Hangup() }) {
				return fail("op %d: Hangup never returned (the engine is wedged)", i)
			}
			for _, o := range observers {
				o.alive = false
			}
		}
		// The engine acknowledges an update before it publishes it. A failing
		// update is answered at the top of the next loop iteration and installs
		// nothing, so once it has been answered every earlier notification is out.
		if !callWithin(engineBound, func() { _ = eng.Update(compileExpr(`1(2)`)) }) {
			return fail("after op %d (%s) the engine no longer answers updates\n%s", i, op.Op, firstRepoFrames(obs.AllStacks()))
		}
		for oi, o := range observers {
			o.mu.Lock()
			got := append([]string{}, o.got...)
			o.mu.Unlock()
			if strings.Join(got, "\n") != strings.Join(o.want, "\n") {
				return fail("after op %d (%s %s): observer %d (%s) was sent\n  %q\nbut the states installed since it subscribed give\n  %q", i, op.Op, op.Expr, oi, o.src, got, o.want)
			}
		}
	}
	return nil
}

func checkEngineConcurrent(c engineCase) *Failure {
	fail := func(format string, args ...interface{}) *Failure {
		return mkFailure("C17", "C17/engine", "", fmt.Sprintf("concurrent: %d clients x %d updates, %d observers\n", c.Clients, c.PerCli, c.Obsvrs)+fmt.Sprintf(format, args...), c)
	}
	eng := engine.Start()
	defer func() { go eng.Stop() }()
	type stream struct {
		mu   sync.Mutex
		vals []rel.Value
	}
	// the database starts as {}; clients merge their counters into a tuple
	if !callWithin(engineBound, func() { _ = eng.Update(compileExpr(`()`)) }) {
		return fail("the first update was never answered")
	}
	streams := make([]*stream, c.Obsvrs)
	for i := range streams {
		s := &stream{}
		streams[i] = s
		if !callWithin(engineBound, func() {
			eng.Observe(compileExpr(`$`), func(v rel.Value) error {
				s.mu.Lock()
				s.vals = append(s.vals, v)
				s.mu.Unlock()
				return nil
			}, func(error) {})
		}) {
			return fail("Observe never returned")
		}
	}
	var wg sync.WaitGroup
	errs := make(chan string, c.Clients*c.PerCli)
	for cl := 0; cl < c.Clients; cl++ {
		wg.Add(1)
		go func(cl int) {
			defer wg.Done()
			for k := 1; k <= c.PerCli; k++ {
				e := compileExpr(fmt.Sprintf("$ +> (c%d: %d)", cl, k))
				if err := eng.Update(e); err != nil {
					errs <- fmt.Sprintf("client %d update %d failed: %v", cl, k, err)
				}
			}
		}(cl)
	}
	if !callWithin(3*engineBound, wg.Wait) {
		return fail("the updates were not all answered (the engine is wedged)\n%s", firstRepoFrames(obs.AllStacks()))
	}
	select {
	case e := <-errs:
		return fail("%s", e)
	default:
	}
	// barrier (see the sequential mode), then inspect the streams
	if !callWithin(engineBound, func() { _ = eng.Update(compileExpr(`1(2)`)) }) {
		return fail("the engine no longer answers updates")
	}
	var first []string
	for si, s := range streams {
		s.mu.Lock()
		vals := append([]rel.Value{}, s.vals...)
		s.mu.Unlock()
		var printed []string
		counters := make([]int, c.Clients)
		for vi, v := range vals {
			printed = append(printed, obs.Repr(v))
			if vi == 0 {
				continue // the initial notification ({} before any update)
			}
			tup, ok := v.(rel.Tuple)
			if !ok {
				if vi == len(vals)-1 {
					continue
				}
				return fail("observer %d was sent a state that is not one of the written tuples: %s", si, obs.Repr(v))
			}
			changed := 0
			for cl := 0; cl < c.Clients; cl++ {
				n := 0
				if x, has := tup.Get(fmt.Sprintf("c%d", cl)); has {
					n = int(x.(rel.Number).Float64())
				}
				switch {
				case n == counters[cl]+1:
					changed++
					counters[cl] = n
				case n != counters[cl]:
					return fail("observer %d: state %d is %s after %s: client %d's counter jumped from %d to %d (updates lost, reordered or torn)", si, vi, obs.Repr(v), printed[vi-1], cl, counters[cl], n)
				}
			}
			if changed > 1 {
				return fail("observer %d: state %d (%s) applies more than one update at once", si, vi, obs.Repr(v))
			}
		}
		for cl, n := range counters {
			if n != c.PerCli {
				return fail("observer %d never saw client %d's update %d (saw up to %d) although it was acknowledged", si, cl, c.PerCli, n)
			}
		}
		if si == 0 {
			first = printed
		} else if strings.Join(first, "\n") != strings.Join(printed, "\n") {
			return fail("observers 0 and %d saw different orders:\n  %q\n  %q", si, first, printed)
		}
	}
	return nil
}

// A case that kills the process (a panic on the engine goroutine cannot be
// recovered here) is found by the driver through this file.
func markPending(c interface{}) {
	if p := os.Getenv("VERIF_FAILFILE"); p != "" {
		raw, _ := json.Marshal(c)
		f := Failure{Property: "C17", Check: "C17/engine", Detail: "the process died while this history was running (a panic on the engine goroutine takes the whole server down)", Case: raw}
		data, _ := json.MarshalIndent(f, "", " ")
		_ = os.WriteFile(p+".pending", data, 0o644)
	}
}

func clearPending() {
	if p := os.Getenv("VERIF_FAILFILE"); p != "" {
		_ = os.Remove(p + ".pending")
	}
}

func init() {
	register("C17/engine", func(raw json.RawMessage) *Failure {
		var c engineCase
		if err := json.Unmarshal(raw, &c); err != nil {
			return &Failure{Property: "C17", Check: "C17/engine", Detail: "bad case: " + err.Error()}
		}
		return checkEngineCase(c)
	})
}

func TestC17(t *testing.T) {
	rapid.Check(t, func(t *rapid.T) {
		c, nt, classes := genC17(t)
		raw, _ := json.Marshal(c)
		stats.Case(nt, string(raw), classes...)
		report(t, checkEngineCase(c))
	})
}
