package checks

import (
	"context"
	"encoding/json"
	"fmt"
	"io"
	"os"
	"sort"
	"strings"
	"testing"
	"time"

	"github.com/spf13/afero"
	"pgregory.net/rapid"

	"github.com/arr-ai/arrai/pkg/arrai"
	"github.com/arr-ai/arrai/pkg/ctxfs"

	"verif/obs"
)

// C19 — --out writes exactly the described tree, or changes nothing.

// outEntry is one member of an output dictionary.
type outEntry struct {
	Key string `json:"key"`
	// Kind: str bytes empty dict tuple num array nonstrkey
	Kind     string     `json:"kind"`
	Data     string     `json:"data,omitempty"`
	Children []outEntry `json:"children,omitempty"` // dict, or the dir: field of a tuple
	// tuple fields
	HasFile  bool   `json:"has_file,omitempty"`
	HasDir   bool   `json:"has_dir,omitempty"`
	FileKind string `json:"file_kind,omitempty"` // str bytes empty num
	IfExists string `json:"if_exists,omitempty"` // "", ignore replace merge remove fail, bogus, #5
}

type outCase struct {
	Mode  string            `json:"mode"` // dir file
	Desc  []outEntry        `json:"desc,omitempty"`
	File  outEntry          `json:"file,omitempty"` // mode file: the value
	Prior map[string]string `json:"prior"`          // path -> content, "<dir>" for directories (under /root)
	// Fault: index of the filesystem operation to fail (-1 none)
	Fault int `json:"fault"`
}

const outRoot = "/root/out"

var outNames = []string{"a", "b", "c", "d.txt"}

func genOutEntries(t *rapid.T, depth int, invalidPct int) []outEntry {
	n := rapid.IntRange(0, 3).Draw(t, "nentries")
	names := rapid.Permutation(outNames).Draw(t, "names")[:n]
	var out []outEntry
	for _, name := range names {
		e := outEntry{Key: name}
		k := rapid.IntRange(0, 9).Draw(t, "ekind")
		switch {
		case chance(t, "invalid", invalidPct):
			switch pick(t, "inv", "num", "array", "tuple-nofields", "tuple-both", "nonstrkey", "dotdotkey", "file-num", "bogus-ifexists", "num-ifexists", "merge-file", "remove-with-file", "replace-both", "emptykey") {
			case "num":
				e.Kind = "num"
			case "array":
				e.Kind = "array"
			case "tuple-nofields":
				e.Kind = "tuple"
			case "tuple-both":
				e.Kind, e.HasFile, e.HasDir, e.FileKind = "tuple", true, true, "str"
			case "nonstrkey":
				e.Kind, e.Data = "nonstrkey", "x"
			case "slashkey":
				e.Key, e.Kind, e.Data = "sub/"+name, "str", "x"
			case "dotdotkey":
				e.Key, e.Kind, e.Data = pick(t, "dd", "..", "../evil", "."), "str", "x"
			case "emptykey":
				e.Key, e.Kind, e.Data = "", "str", "x"
			case "file-num":
				e.Kind, e.HasFile, e.FileKind = "tuple", true, "num"
			case "bogus-ifexists":
				e.Kind, e.HasFile, e.FileKind, e.IfExists = "tuple", true, "str", "bogus"
			case "num-ifexists":
				e.Kind, e.HasFile, e.FileKind, e.IfExists = "tuple", true, "str", "#5"
			case "merge-file":
				e.Kind, e.HasFile, e.FileKind, e.IfExists = "tuple", true, "str", "merge"
			case "remove-with-file":
				e.Kind, e.HasFile, e.FileKind, e.IfExists = "tuple", true, "str", "remove"
			case "replace-both":
				e.Kind, e.HasFile, e.HasDir, e.FileKind, e.IfExists = "tuple", true, true, "str", "replace"
			}
		case k <= 2:
			e.Kind, e.Data = "str", pick(t, "data", "hello", "", "x\ny", "é")
			if e.Data == "" {
				e.Kind = "empty"
			}
		case k == 3:
			e.Kind, e.Data = "bytes", pick(t, "data", "\x00\x01", "bin")
		case k <= 5 && depth > 0:
			e.Kind = "dict"
			e.Children = genOutEntries(t, depth-1, invalidPct)
		default:
			e.Kind = "tuple"
			e.IfExists = pick(t, "ifexists", "", "", "ignore", "replace", "merge", "remove", "fail")
			switch e.IfExists {
			case "remove":
			case "merge":
				e.HasDir = true
			default:
				if chance(t, "isdir", 40) && depth > 0 {
					e.HasDir = true
				} else {
					e.HasFile = true
					e.FileKind = pick(t, "fk", "str", "bytes", "empty")
				}
			}
			e.Data = pick(t, "data", "new", "other")
			if e.HasDir {
				e.Children = genOutEntries(t, depth-1, invalidPct)
			}
		}
		dup := false
		for _, prev := range out {
			dup = dup || prev.Key == e.Key || prev.Kind == "nonstrkey" && e.Kind == "nonstrkey"
		}
		if !dup {
			out = append(out, e)
		}
	}
	return out
}

func fileSrc(kind, data string) string {
	switch kind {
	case "bytes":
		var parts []string
		for _, b := range []byte(data) {
			parts = append(parts, fmt.Sprint(b))
		}
		return "<<" + strings.Join(parts, ", ") + ">>"
	case "empty":
		return `""`
	case "num":
		return "42"
	}
	return fmt.Sprintf("%q", data)
}

func entriesSrc(es []outEntry) string {
	if len(es) == 0 {
		return "{}"
	}
	var parts []string
	for _, e := range es {
		key := fmt.Sprintf("%q", e.Key)
		var val string
		switch e.Kind {
		case "str", "bytes", "empty":
			val = fileSrc(e.Kind, e.Data)
		case "num":
			val = "7"
		case "array":
			val = "[1, 2]"
		case "nonstrkey":
			key, val = "5", `"x"`
		case "dict":
			val = entriesSrc(e.Children)
		case "tuple":
			var fs []string
			switch {
			case e.IfExists == "#5":
				fs = append(fs, "ifExists: 5")
			case e.IfExists != "":
				fs = append(fs, fmt.Sprintf("ifExists: %q", e.IfExists))
			}
			if e.HasFile {
				fs = append(fs, "file: "+fileSrc(e.FileKind, e.Data))
			}
			if e.HasDir {
				fs = append(fs, "dir: "+entriesSrc(e.Children))
			}
			val = "(" + strings.Join(fs, ", ") + ")"
		}
		parts = append(parts, key+": "+val)
	}
	return "{" + strings.Join(parts, ", ") + "}"
}

// ---------------------------------------------------------------------------
// file-tree model

type tree map[string]string // path -> content, "<dir>" for a directory

func (tr tree) clone() tree {
	c := tree{}
	for k, v := range tr {
		c[k] = v
	}
	return c
}

func (tr tree) removeAll(p string) {
	for k := range tr {
		if k == p || strings.HasPrefix(k, p+"/") {
			delete(tr, k)
		}
	}
}

type outModel struct {
	invalid  bool // the description is invalid somewhere
	refused  bool // ifExists: fail hit an existing entry
	conflict bool // a file where a directory is described or the reverse, without a rule
}

func validEntry(e outEntry) bool {
	if e.Key == "" || strings.Contains(e.Key, "/") || e.Key == "." || e.Key == ".." {
		return false
	}
	switch e.Kind {
	case "str", "bytes", "empty":
		return true
	case "dict":
		return validEntries(e.Children)
	case "tuple":
		switch e.IfExists {
		case "":
			if e.HasFile == e.HasDir {
				return false
			}
		case "ignore", "replace", "fail":
			if e.HasFile == e.HasDir {
				return false
			}
		case "merge":
			if !e.HasDir || e.HasFile {
				return false
			}
		case "remove":
			if e.HasDir || e.HasFile {
				return false
			}
		default:
			return false
		}
		if e.HasFile && e.FileKind == "num" {
			return false
		}
		if e.HasDir {
			return validEntries(e.Children)
		}
		return true
	}
	return false
}

func validEntries(es []outEntry) bool {
	for _, e := range es {
		if !validEntry(e) {
			return false
		}
	}
	return true
}

func (m *outModel) applyDir(tr tree, dir string, es []outEntry) {
	if v, ok := tr[dir]; ok && v != "<dir>" {
		m.conflict = true
		return
	}
	tr[dir] = "<dir>"
	for _, e := range es {
		p := dir + "/" + e.Key
		m.applyEntry(tr, p, e)
	}
}

func (m *outModel) writeFile(tr tree, p, data string) {
	if tr[p] == "<dir>" {
		m.conflict = true
		return
	}
	tr[p] = data
}

func (m *outModel) applyFields(tr tree, p string, e outEntry) {
	if e.HasDir {
		m.applyDir(tr, p, e.Children)
		return
	}
	data := e.Data
	if e.FileKind == "empty" {
		data = ""
	}
	m.writeFile(tr, p, data)
}

func (m *outModel) applyEntry(tr tree, p string, e outEntry) {
	switch e.Kind {
	case "str", "bytes":
		m.writeFile(tr, p, e.Data)
	case "empty":
		m.writeFile(tr, p, "")
	case "dict":
		if len(e.Children) == 0 {
			// {} is the empty string: an empty file (an empty directory is (dir: {}))
			m.writeFile(tr, p, "")
			return
		}
		m.applyDir(tr, p, e.Children)
	case "tuple":
		_, exists := tr[p]
		switch e.IfExists {
		case "":
			m.applyFields(tr, p, e)
		case "remove":
			tr.removeAll(p)
		case "ignore":
			if !exists {
				m.applyFields(tr, p, e)
			}
		case "fail":
			if exists {
				m.refused = true
				return
			}
			m.applyFields(tr, p, e)
		case "replace":
			tr.removeAll(p)
			m.applyFields(tr, p, e)
		case "merge":
			m.applyDir(tr, p, e.Children)
		}
	}
}

// ---------------------------------------------------------------------------
// filesystem with fault injection

type faultFs struct {
	afero.Fs
	failAt int // index of the mutating operation that fails; -1 none
	n      int
	ops    []string
}

var errInjected = fmt.Errorf("injected I/O error")

func (f *faultFs) op(name string) error {
	i := f.n
	f.n++
	f.ops = append(f.ops, name)
	if i == f.failAt {
		return errInjected
	}
	return nil
}

func (f *faultFs) Mkdir(name string, perm os.FileMode) error {
	if err := f.op("mkdir " + name); err != nil {
		return err
	}
	return f.Fs.Mkdir(name, perm)
}

func (f *faultFs) MkdirAll(name string, perm os.FileMode) error {
	if err := f.op("mkdirall " + name); err != nil {
		return err
	}
	return f.Fs.MkdirAll(name, perm)
}

func (f *faultFs) RemoveAll(name string) error {
	if err := f.op("removeall " + name); err != nil {
		return err
	}
	return f.Fs.RemoveAll(name)
}

func (f *faultFs) Create(name string) (afero.File, error) {
	if err := f.op("create " + name); err != nil {
		return nil, err
	}
	file, err := f.Fs.Create(name)
	if err != nil {
		return nil, err
	}
	return &faultFile{File: file, fs: f}, nil
}

func (f *faultFs) OpenFile(name string, flag int, perm os.FileMode) (afero.File, error) {
	if flag&(os.O_WRONLY|os.O_RDWR|os.O_CREATE|os.O_TRUNC) != 0 {
		if err := f.op("openfile " + name); err != nil {
			return nil, err
		}
	}
	file, err := f.Fs.OpenFile(name, flag, perm)
	if err != nil {
		return nil, err
	}
	return &faultFile{File: file, fs: f}, nil
}

type faultFile struct {
	afero.File
	fs *faultFs
}

func (f *faultFile) Write(p []byte) (int, error) {
	if err := f.fs.op("write"); err != nil {
		return 0, err
	}
	return f.File.Write(p)
}

func (f *faultFile) Sync() error {
	if err := f.fs.op("sync"); err != nil {
		return err
	}
	return f.File.Sync()
}

// snapshot lists the tree below /root; probe names further paths to look up
// directly (entries that a directory walk cannot reach any more, e.g. below a
// path that has become a file, still count).
func snapshot(fs afero.Fs, probe ...string) tree {
	tr := tree{}
	defer func() {
		for _, p := range probe {
			if _, seen := tr[p]; seen {
				continue
			}
			if info, err := fs.Stat(p); err == nil {
				if info.IsDir() {
					tr[p] = "<dir>"
				} else {
					b, _ := afero.ReadFile(fs, p)
					tr[p] = string(b)
				}
			}
		}
	}()
	_ = afero.Walk(fs, "/root", func(p string, info os.FileInfo, err error) error {
		if err != nil || p == "/root" {
			return nil
		}
		if info.IsDir() {
			tr[p] = "<dir>"
		} else {
			b, _ := afero.ReadFile(fs, p)
			tr[p] = string(b)
		}
		return nil
	})
	return tr
}

func diffTrees(want, got tree) string {
	var lines []string
	keys := map[string]bool{}
	for k := range want {
		keys[k] = true
	}
	for k := range got {
		keys[k] = true
	}
	var ks []string
	for k := range keys {
		ks = append(ks, k)
	}
	sort.Strings(ks)
	for _, k := range ks {
		w, wok := want[k]
		g, gok := got[k]
		switch {
		case !gok:
			lines = append(lines, fmt.Sprintf("  missing %s (%q)", k, w))
		case !wok:
			lines = append(lines, fmt.Sprintf("  unexpected %s (%q)", k, g))
		case w != g:
			lines = append(lines, fmt.Sprintf("  %s holds %q, expected %q", k, g, w))
		}
	}
	return strings.Join(lines, "\n")
}

func genC19(t *rapid.T) (outCase, bool, []string) {
	c := outCase{Mode: "dir", Prior: map[string]string{}, Fault: -1}
	classes := []string{}
	// canaries outside the target
	c.Prior["/root/sibling.txt"] = "keep"
	c.Prior["/root/outx"] = "<dir>"
	c.Prior["/root/outx/f"] = "keep"
	if chance(t, "filemode", 12) {
		c.Mode = "file"
		c.File = outEntry{Kind: pick(t, "fkind", "str", "bytes", "empty", "num", "array", "dict"), Data: pick(t, "data", "hello", "x\ny")}
		if chance(t, "exists", 50) {
			c.Prior[outRoot] = "old"
		}
		return c, true, []string{"mode:file", "value:" + c.File.Kind}
	}
	invalidPct := pick(t, "invalidpct", 0, 0, 0, 12, 25)
	c.Desc = genOutEntries(t, 2, invalidPct)
	// prior state overlapping the description
	if chance(t, "hasout", 75) {
		c.Prior[outRoot] = "<dir>"
		var addPrior func(dir string, depth int)
		addPrior = func(dir string, depth int) {
			for _, name := range outNames {
				switch rapid.IntRange(0, 5).Draw(t, "prior") {
				case 0:
					c.Prior[dir+"/"+name] = "old-" + name
				case 1:
					if depth > 0 {
						c.Prior[dir+"/"+name] = "<dir>"
						addPrior(dir+"/"+name, depth-1)
					}
				}
			}
		}
		addPrior(outRoot, 2)
	}
	valid := validEntries(c.Desc)
	classes = append(classes, "mode:dir", fmt.Sprintf("valid:%v", valid), fmt.Sprintf("prior:%d", min(len(c.Prior)-3, 6)))
	seenIf := map[string]bool{}
	var walk func(es []outEntry)
	walk = func(es []outEntry) {
		for _, e := range es {
			classes = append(classes, "entry:"+e.Kind)
			if e.Kind == "tuple" {
				seenIf[e.IfExists] = true
				classes = append(classes, "ifExists:"+e.IfExists)
			}
			walk(e.Children)
		}
	}
	walk(c.Desc)
	overlap := false
	for p := range c.Prior {
		if strings.HasPrefix(p, outRoot+"/") {
			overlap = true
		}
	}
	if valid && chance(t, "fault", 30) {
		// every filesystem operation of this run gets an injected error in turn
		c.Fault = faultAll
		classes = append(classes, "fault-enumerated")
	}
	return c, overlap || !valid || len(seenIf) >= 2, uniq(classes)
}

func checkOutCase(c outCase) *Failure {
	type res struct{ f *Failure }
	ch := make(chan res, 1)
	go func() { ch <- res{checkOutCase1(c)} }()
	select {
	case r := <-ch:
		return r.f
	case <-time.After(hangBound):
		return mkFailure("C19", "C19/out", "", "writing the output did not finish", c)
	}
}

const faultAll = -2

// opsOfRun is set by checkOutCase1 to the number of filesystem operations the
// last run performed.
func checkOutCase1(c outCase) *Failure {
	if c.Fault == faultAll {
		base := c
		base.Fault = -1
		n := 0
		if f := checkOutCaseOnce(base, &n); f != nil {
			return f
		}
		for k := 0; k < n; k++ {
			sub := c
			sub.Fault = k
			if f := checkOutCaseOnce(sub, nil); f != nil {
				return f
			}
			stats.mu.Lock()
			stats.Passed["fault_points"]++
			stats.mu.Unlock()
		}
		return nil
	}
	return checkOutCaseOnce(c, nil)
}

func checkOutCaseOnce(c outCase, nops *int) *Failure {
	fail := func(sig, format string, args ...interface{}) *Failure {
		if known("C19", sig) {
			return nil
		}
		return mkFailure("C19", "C19/out", sig, fmt.Sprintf(format, args...), c)
	}
	mem := afero.NewMemMapFs()
	_ = mem.MkdirAll("/root", 0o755)
	var paths []string
	for p := range c.Prior {
		paths = append(paths, p)
	}
	sort.Strings(paths)
	for _, p := range paths {
		if c.Prior[p] == "<dir>" {
			_ = mem.MkdirAll(p, 0o755)
		} else {
			_ = afero.WriteFile(mem, p, []byte(c.Prior[p]), 0o644)
		}
	}
	prior := snapshot(mem)
	src := entriesSrc(c.Desc)
	out := "dir:" + outRoot
	if c.Mode == "file" {
		out = "file:" + outRoot
		switch c.File.Kind {
		case "dict":
			src = `{"a": "x"}`
		case "array":
			src = "[1, 2]"
		default:
			src = fileSrc(c.File.Kind, c.File.Data)
		}
	}
	val := obs.Eval(src)
	if val.Kind != "value" {
		return &Failure{Property: "C19", Check: "C19/out", Detail: "generator produced a description that does not evaluate: " + src + ": " + val.String()}
	}
	ffs := &faultFs{Fs: mem, failAt: c.Fault}
	ctx := ctxfs.RuntimeFsOnto(context.Background(), ffs)
	var runErr error
	panicked := ""
	func() {
		defer func() {
			if r := recover(); r != nil {
				panicked = fmt.Sprint(r)
			}
		}()
		runErr = arrai.OutputValue(ctx, val.Value, io.Discard, out)
	}()
	after := snapshot(mem, paths...)
	if nops != nil {
		*nops = ffs.n
	}
	head := fmt.Sprintf("--out=%s with result %s\nprior tree: %v\n", out, src, prior)
	if panicked != "" {
		return fail("", head+"panicked: %s", panicked)
	}
	// nothing outside the target may ever change
	for p, v := range prior {
		if p != outRoot && !strings.HasPrefix(p, outRoot+"/") && after[p] != v {
			return fail("", head+"%s outside the target changed: %q -> %q", p, v, after[p])
		}
	}
	for p := range after {
		if p != outRoot && !strings.HasPrefix(p, outRoot+"/") {
			if _, had := prior[p]; !had {
				return fail("", head+"%s was created outside the target", p)
			}
		}
	}
	if c.Mode == "file" {
		switch c.File.Kind {
		case "str", "bytes", "empty":
			want := c.File.Data
			if c.File.Kind == "empty" {
				want = ""
			}
			if runErr != nil {
				return fail("", head+"failed: %v", runErr)
			}
			if after[outRoot] != want {
				return fail("", head+"the file holds %q, expected %q", after[outRoot], want)
			}
		default:
			if runErr == nil {
				return fail("", head+"a result that is neither string nor bytes must be refused")
			}
			if d := diffTrees(prior, after); d != "" {
				return fail("", head+"failed (%v) but changed the tree:\n%s", runErr, d)
			}
		}
		return nil
	}
	m := &outModel{}
	want := prior.clone()
	valid := validEntries(c.Desc)
	if valid {
		m.applyDir(want, outRoot, c.Desc)
	}
	switch {
	case !valid:
		if runErr == nil {
			return fail("out-invalid-accepted", head+"the description is invalid but the command succeeded; tree now:\n%s", diffTrees(prior, after))
		}
		if d := diffTrees(prior, after); d != "" {
			return fail("out-invalid-changes-tree", head+"the description is invalid (%v) but the tree changed:\n%s", runErr, d)
		}
	case c.Fault >= 0 && c.Fault < ffs.n:
		// an injected error at a mutating operation must be reported
		if runErr == nil {
			return fail("", head+"operation %d (%s) failed with an I/O error but the command reported success\noperations: %v", c.Fault, ffs.ops[c.Fault], ffs.ops)
		}
	case m.conflict:
		// a file where a directory is described (or the reverse): error, or exact tree
		if runErr == nil {
			if d := diffTrees(want, after); d != "" && !m.conflict {
				return fail("", head+"succeeded but the tree differs:\n%s", d)
			}
		}
	case m.refused:
		if runErr == nil {
			return fail("", head+"an ifExists: 'fail' entry exists but the command succeeded")
		}
		if d := diffTrees(prior, after); d != "" {
			return fail("out-fail-changes-tree", head+"refused (%v) but the tree changed:\n%s", runErr, d)
		}
	default:
		if runErr != nil {
			return fail("", head+"a valid description failed: %v", runErr)
		}
		if d := diffTrees(want, after); d != "" {
			return fail("", head+"the tree differs from the description:\n%s", d)
		}
	}
	return nil
}

func init() {
	register("C19/out", func(raw json.RawMessage) *Failure {
		var c outCase
		if err := json.Unmarshal(raw, &c); err != nil {
			return &Failure{Property: "C19", Check: "C19/out", Detail: "bad case: " + err.Error()}
		}
		return checkOutCase(c)
	})
}

func TestC19(t *testing.T) {
	rapid.Check(t, func(t *rapid.T) {
		c, nt, classes := genC19(t)
		raw, _ := json.Marshal(c)
		stats.Case(nt, string(raw), classes...)
		report(t, checkOutCase(c))
	})
}
