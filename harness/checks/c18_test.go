package checks

import (
	"context"
	"encoding/json"
	"fmt"
	"sort"
	"strings"
	"sync"
	"testing"
	"time"

	"github.com/spf13/afero"
	"pgregory.net/rapid"

	"github.com/arr-ai/arrai/pkg/ctxfs"
	"github.com/arr-ai/arrai/pkg/ctxrootcache"
	"github.com/arr-ai/arrai/rel"
	"github.com/arr-ai/arrai/syntax"

	"verif/obs"
)

// C18 — sandboxed evaluation reaches only the scope and library it was given.

type sandboxCase struct {
	// Outer is the whole program; Inner the sandboxed source it evaluates.
	Outer string `json:"outer"`
	Inner string `json:"inner"`
	// Allowed: every // reference and name the inner source uses is in the
	// configured library/scope, so it must evaluate; otherwise it must fail.
	Allowed bool `json:"allowed"`
	// Routes names the escape routes the inner source uses (for known findings)
	Routes []string `json:"routes,omitempty"`
	// Forbidden lists printed markers of functions/values that must not show up in the result
	Forbidden []string `json:"forbidden"`
}

const outerSecret = "S3CR3T-91c"

// libRef is a reference into the standard library together with a complete,
// harmless use of it.
type libRef struct {
	pkg, fn string
	use     string // source using it (evaluates when the function is available)
	marker  string // how the bare function prints, if it is a forbidden capability
}

var libRefs = []libRef{
	{"str", "upper", `//str.upper("a")`, ""},
	{"str", "lower", `//str.lower("A")`, ""},
	{"seq", "concat", `//seq.concat([[1], [2]])`, ""},
	{"math", "pi", `//math.pi`, ""},
	{"bits", "mask", `//bits.mask({1})`, ""},
	{"encoding", "json", `//encoding.json.decode("1")`, ""},
	{"rel", "union", `//rel.union({{1}, {2}})`, ""},
	{"os", "file", `//os.file("/secret.txt")`, "⦑file⦒"},
	{"os", "file", `//os.file`, "⦑file⦒"},
	{"os", "exists", `//os.exists("/secret.txt")`, ""},
	{"net", "http", `//net.http.get`, "⦑get⦒"},
	{"net", "http", `//net.http.post`, "⦑post⦒"},
	{"deprecated", "exec", `//deprecated.exec`, "⦑exec⦒"},
}

var (
	safeOnce  sync.Once
	safePaths map[string]bool
)

// inSafeLib reports whether pkg.fn exists in the safe standard library tuple.
func inSafeLib(pkg, fn string) bool {
	safeOnce.Do(func() {
		safePaths = map[string]bool{}
		t := syntax.SafeStdScopeTuple()
		for e := t.Enumerator(); e.MoveNext(); {
			name, val := e.Current()
			safePaths[name] = true
			if sub, ok := val.(rel.Tuple); ok {
				for f := sub.Enumerator(); f.MoveNext(); {
					n2, _ := f.Current()
					safePaths[name+"."+n2] = true
				}
			}
		}
	})
	return safePaths[pkg+"."+fn]
}

func genC18(t *rapid.T) (sandboxCase, bool, []string) {
	var c sandboxCase
	classes := []string{}
	// configuration
	cfgKind := pick(t, "cfg", "default", "default", "scope", "stdlib", "stdlib-empty", "both")
	var libPkgs []string // packages passed in a custom stdlib (whole packages of the full library)
	scopeNames := []string{}
	cfg := ""
	switch cfgKind {
	case "scope":
		scopeNames = []string{"x"}
		cfg = "(scope: (x: 7))"
	case "stdlib", "both":
		libPkgs = rapid.SliceOfNDistinct(rapid.SampledFrom([]string{"str", "seq", "math", "bits", "eval"}), 1, 3, rapid.ID[string]).Draw(t, "libpkgs")
		sort.Strings(libPkgs)
		var fields []string
		for _, p := range libPkgs {
			fields = append(fields, p+": //"+p)
		}
		cfg = "(stdlib: (" + strings.Join(fields, ", ") + ")"
		if cfgKind == "both" {
			scopeNames = []string{"x"}
			cfg += ", scope: (x: 7)"
		}
		cfg += ")"
	case "stdlib-empty":
		cfg = "(stdlib: ())"
	}
	classes = append(classes, "config:"+cfgKind)
	customLib := cfgKind == "stdlib" || cfgKind == "both" || cfgKind == "stdlib-empty"
	allowedRef := func(r libRef) bool {
		if customLib {
			for _, p := range libPkgs {
				if p == r.pkg {
					return true
				}
			}
			return false
		}
		return inSafeLib(r.pkg, r.fn)
	}
	// inner source
	ref := libRefs[rapid.IntRange(0, len(libRefs)-1).Draw(t, "ref")]
	shape := pick(t, "shape", "direct", "direct", "in-array", "let", "lambda-applied", "lambda-returned", "nested-eval", "eval-value", "name", "outer-name", "import", "std-safe-walk")
	c.Allowed = allowedRef(ref)
	use := ref.use
	apply := ""
	switch shape {
	case "direct":
		c.Inner = use
	case "in-array":
		c.Inner = "[1, " + use + "]"
	case "let":
		c.Inner = "let v = " + use + "; [v]"
	case "lambda-applied":
		c.Inner = `(\z ` + use + `)(1)`
	case "lambda-returned":
		// the function leaves the sandbox and is applied outside
		c.Inner = `\z ` + use
		apply = "(1)"
	case "nested-eval":
		// the nested sandbox gets the default (safe) library whatever the outer one had
		c.Inner = fmt.Sprintf("//eval.eval(%q)", use)
		c.Allowed = allowedRef(libRef{pkg: "eval", fn: "eval"}) && inSafeLib(ref.pkg, ref.fn)
		c.Routes = append(c.Routes, "nested-eval")
	case "eval-value":
		c.Inner = fmt.Sprintf("//eval.value(%q)", use)
		c.Allowed = c.Allowed && allowedRef(libRef{pkg: "eval", fn: "value"})
		c.Routes = append(c.Routes, "eval-value")
	case "name":
		c.Inner = "x + 1"
		c.Allowed = len(scopeNames) > 0
		ref = libRef{}
	case "outer-name":
		c.Inner = "[secretVar]"
		c.Allowed = false
		ref = libRef{}
	case "import":
		c.Inner = pick(t, "imp", "//{./canary}", "//{/canary}", "//[//encoding.bytes]{./canary.txt}")
		c.Allowed = false
		c.Routes = append(c.Routes, "import-syntax")
		ref = libRef{}
	case "std-safe-walk":
		c.Inner = "//std.safe." + ref.pkg + "." + ref.fn
		if ref.pkg == "net" || ref.pkg == "encoding" {
			c.Inner = "//std.safe." + ref.pkg
		}
		c.Allowed = allowedRef(libRef{pkg: "std", fn: "safe"}) && inSafeLib(ref.pkg, ref.fn)
		c.Routes = append(c.Routes, "std-safe-walk")
	}
	if ref.pkg == "deprecated" {
		c.Routes = append(c.Routes, "deprecated-exec")
	}
	classes = append(classes, "shape:"+shape, "ref:"+ref.pkg, fmt.Sprintf("allowed:%v", c.Allowed))
	eval := "//eval.eval"
	if cfg != "" {
		eval = "//eval.evaluator(" + cfg + ").eval"
	}
	c.Outer = fmt.Sprintf("let secretVar = %q; let r = %s(%q); r%s", outerSecret, eval, c.Inner, apply)
	// what must never come out: the outer secret, file contents, and capabilities that were not passed in
	c.Forbidden = []string{outerSecret, canaryText}
	for _, r := range libRefs {
		if r.marker != "" && !allowedRef(r) {
			c.Forbidden = append(c.Forbidden, r.marker)
		}
	}
	nt := shape != "direct" || customLib
	return c, nt, classes
}

func checkSandboxCase(c sandboxCase) *Failure {
	sig := ""
	for _, r := range c.Routes {
		switch r {
		case "eval-value":
			sig = "sandbox-eval-value"
		case "import-syntax":
			sig = "sandbox-import-syntax"
		case "deprecated-exec":
			if sig == "" {
				sig = "safe-lib-has-exec"
			}
		}
	}
	fail := func(format string, args ...interface{}) *Failure {
		if known("C18", sig) {
			return nil
		}
		return mkFailure("C18", "C18/sandbox", sig, "program: "+c.Outer+"\nsandboxed source: "+c.Inner+"\n"+fmt.Sprintf(format, args...), c)
	}
	src := afero.NewMemMapFs()
	for _, p := range []string{"canary.arrai", "/canary.arrai", "canary.txt", "/canary.txt"} {
		_ = afero.WriteFile(src, p, []byte(`"`+canaryText+`"`), 0o644)
	}
	rt := afero.NewMemMapFs()
	_ = afero.WriteFile(rt, "/secret.txt", []byte(canaryText), 0o644)
	srcRec := &recFs{Fs: src, root: "/"}
	rtRec := &recFs{Fs: rt, root: "/"}
	ctx := ctxfs.SourceFsOnto(context.Background(), srcRec)
	ctx = ctxfs.RuntimeFsOnto(ctx, rtRec)
	ctx = ctxrootcache.WithRootCache(ctx)
	ch := make(chan obs.Outcome2, 1)
	go func() {
		ch <- guardEval(func() (rel.Value, error) { return syntax.EvaluateExpr(ctx, syntax.NoPath, c.Outer) })
	}()
	var out obs.Outcome2
	select {
	case out = <-ch:
	case <-time.After(hangBound):
		return fail("the evaluation did not finish")
	}
	srcRec.mu.Lock()
	rtRec.mu.Lock()
	reads := append(append([]string{}, srcRec.reads...), rtRec.reads...)
	rtRec.mu.Unlock()
	srcRec.mu.Unlock()
	if len(reads) > 0 && !c.Allowed {
		return fail("the sandbox was not given file access but files were read: %v (outcome %s)", reads, describeOutcome(out))
	}
	if out.Kind == "panic" {
		if c.Allowed {
			return nil // a crash is C10's business
		}
		return fail("panicked: %s", out.Panic)
	}
	if out.Kind == "value" {
		text := obs.Repr(out.Value)
		for _, f := range c.Forbidden {
			if strings.Contains(text, f) {
				return fail("the result contains %q, which the sandbox was not given: %s", f, text)
			}
		}
	}
	if c.Allowed && out.Kind != "value" {
		return fail("everything the source uses is in the configured library/scope, but it failed: %s", describeOutcome(out))
	}
	if !c.Allowed && out.Kind == "value" {
		return fail("the source refers to something outside the configured library/scope, but it evaluated to %s", obs.Repr(out.Value))
	}
	return nil
}

func init() {
	register("C18/sandbox", func(raw json.RawMessage) *Failure {
		var c sandboxCase
		if err := json.Unmarshal(raw, &c); err != nil {
			return &Failure{Property: "C18", Check: "C18/sandbox", Detail: "bad case: " + err.Error()}
		}
		return checkSandboxCase(c)
	})
}

// TestC18Static: the safe library itself contains no file, network or command execution function.
func c18StaticFindings() []string {
	var bad []string
	for _, r := range libRefs {
		if r.marker != "" && inSafeLib(r.pkg, r.fn) {
			bad = append(bad, r.pkg+"."+r.fn)
		}
	}
	return bad
}

func TestC18(t *testing.T) {
	rapid.Check(t, func(t *rapid.T) {
		c, nt, classes := genC18(t)
		stats.Case(nt, c.Outer, classes...)
		report(t, checkSandboxCase(c))
	})
}
