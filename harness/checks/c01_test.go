package checks

import (
	"encoding/json"
	"fmt"
	"strings"
	"testing"

	"pgregory.net/rapid"

	"verif/model"
)

// C01 — set algebra is exact for every mix of value representations.

type setCase struct {
	EvalCase
	Op string `json:"op"`
}

var c01Ops = []string{"|", "&", "&~", "~~", "with", "without", "<:", "!<:", "(<)", "(<=)", "(>)", "(>=)", "(<>)", "(<>=)",
	"count", "where", "=>", "^", "|", "&", "&~", "~~", "with", "without", "where", "=>"}

var c01Cfg = gcfg{oddSugar: true, superimposed: true, quotedNames: true}

// related draws a set that overlaps with a: some of its members, some near misses.
func (g gcfg) related(t *rapid.T, a *model.V) *model.V {
	var ms []*model.V
	for _, e := range a.Elems {
		if chance(t, "keep", 60) {
			ms = append(ms, e)
		}
	}
	n := rapid.IntRange(0, 2).Draw(t, "extras")
	for i := 0; i < n; i++ {
		ms = append(ms, g.nearMiss(t, a))
	}
	return model.SetOf(ms...)
}

func genC01(t *rapid.T) (setCase, bool, []string) {
	g := c01Cfg
	depth := 2
	if thorough() {
		depth = 3
	}
	r := newRenderer(t)
	op := pick(t, "op", c01Ops...)
	a, _ := g.genSet(t, depth)
	if op == "^" {
		for len(a.Elems) > 5 {
			a = model.SetOf(a.Elems[:5]...)
		}
	}
	computedPct := 30
	srcA := r.expr(g, a, computedPct)
	c := setCase{Op: op}
	var b, x, result *model.V
	classes := []string{"op:" + op, "lhs:" + reprKind(a)}
	setOperand := func() string {
		if chance(t, "related", 55) {
			b = g.related(t, a)
		} else {
			b, _ = g.genSet(t, depth)
		}
		classes = append(classes, "rhs:"+reprKind(b))
		return r.expr(g, b, computedPct)
	}
	elemOperand := func() string {
		x = g.nearMiss(t, a)
		return r.lit(x)
	}
	switch op {
	case "|":
		c.Src = srcA + " | " + setOperand()
		result = model.Union(a, b)
	case "&":
		c.Src = srcA + " & " + setOperand()
		result = model.Intersect(a, b)
	case "&~":
		c.Src = srcA + " &~ " + setOperand()
		result = model.Diff(a, b)
	case "~~":
		c.Src = srcA + " ~~ " + setOperand()
		result = model.SymDiff(a, b)
	case "with":
		c.Src = srcA + " with " + elemOperand()
		result = model.With(a, x)
	case "without":
		c.Src = srcA + " without " + elemOperand()
		result = model.Without(a, x)
	case "<:":
		c.Src = elemOperand() + " <: " + srcA
		result = model.Bool(a.Has(x))
	case "!<:":
		c.Src = elemOperand() + " !<: " + srcA
		result = model.Bool(!a.Has(x))
	case "(<)":
		c.Src = srcA + " (<) " + setOperand()
		result = model.Bool(model.SubsetEq(a, b) && !model.Eq(a, b))
	case "(<=)":
		c.Src = srcA + " (<=) " + setOperand()
		result = model.Bool(model.SubsetEq(a, b))
	case "(>)":
		c.Src = srcA + " (>) " + setOperand()
		result = model.Bool(model.SubsetEq(b, a) && !model.Eq(a, b))
	case "(>=)":
		c.Src = srcA + " (>=) " + setOperand()
		result = model.Bool(model.SubsetEq(b, a))
	case "(<>)":
		c.Src = srcA + " (<>) " + setOperand()
		result = model.Bool((model.SubsetEq(a, b) || model.SubsetEq(b, a)) && !model.Eq(a, b))
	case "(<>=)":
		c.Src = srcA + " (<>=) " + setOperand()
		result = model.Bool(model.SubsetEq(a, b) || model.SubsetEq(b, a))
	case "count":
		c.Src = "(" + srcA + ") count"
		result = model.Num(float64(a.Count()))
	case "^":
		c.Src = "^(" + srcA + ")"
		result = model.PowerSet(a)
	case "where":
		var pred string
		var p func(*model.V) bool
		switch pick(t, "pred", "ne", "eq", "in", "at<") {
		case "ne":
			x = g.nearMiss(t, a)
			pred, p = ". != "+r.lit(x), func(e *model.V) bool { return !model.Eq(e, x) }
		case "eq":
			x = g.nearMiss(t, a)
			pred, p = ". = "+r.lit(x), func(e *model.V) bool { return model.Eq(e, x) }
		case "at<":
			if allHaveNumAt(a) {
				k := rapid.IntRange(-1, 3).Draw(t, "k")
				pred = fmt.Sprintf(".@ < %d", k)
				p = func(e *model.V) bool { at, _ := e.Get("@"); return at.N < float64(k) }
				break
			}
			fallthrough
		default:
			b = g.related(t, a)
			pred, p = ". <: "+r.lit(b), func(e *model.V) bool { return b.Has(e) }
		}
		classes = append(classes, "pred:"+strings.Fields(pred)[0]+strings.Fields(pred)[1])
		c.Src = srcA + " where " + pred
		result = model.Filter(a, p)
	case "=>":
		var fn string
		var f func(*model.V) *model.V
		opts := []string{"id", "wrapset", "wraptup", "in", "eq", "wraparr"}
		if allHaveNumAt(a) {
			opts = append(opts, "at", "at")
		}
		if sv, ok := a.AsSeq(); ok {
			opts = append(opts, "flatten", "flatten")
			if sv.Attr == "@item" && allNumItems(sv) {
				opts = append(opts, "swap")
			}
		}
		which := pick(t, "fn", opts...)
		switch which {
		case "id":
			fn, f = ".", func(e *model.V) *model.V { return e }
		case "wrapset":
			fn, f = "{.}", func(e *model.V) *model.V { return model.SetOf(e) }
		case "wraptup":
			fn, f = "(a: .)", func(e *model.V) *model.V { return model.Tup("a", e) }
		case "wraparr":
			fn, f = "[.]", func(e *model.V) *model.V { return model.Arr(0, e) }
		case "in":
			b = g.related(t, a)
			fn, f = ". <: "+r.lit(b), func(e *model.V) *model.V { return model.Bool(b.Has(e)) }
		case "eq":
			x = g.nearMiss(t, a)
			fn, f = ". = "+r.lit(x), func(e *model.V) *model.V { return model.Bool(model.Eq(e, x)) }
		case "at":
			fn, f = ".@", func(e *model.V) *model.V { at, _ := e.Get("@"); return at }
		case "flatten":
			sv, _ := a.AsSeq()
			attr := sv.Attr
			var c0 *model.V
			for _, it := range sv.Items {
				if it != nil {
					c0 = it
				}
			}
			fn = fmt.Sprintf("(@: .@ %% 2, %s: %s)", attr, r.lit(c0))
			f = func(e *model.V) *model.V {
				at, _ := e.Get("@")
				m := int(at.N) % 2
				return model.Tup("@", m, attr, c0)
			}
		case "swap":
			fn = "(@: .@item, @item: .@)"
			f = func(e *model.V) *model.V {
				at, _ := e.Get("@")
				it, _ := e.Get("@item")
				return model.Tup("@", it, "@item", at)
			}
		}
		classes = append(classes, "fn:"+which)
		c.Src = srcA + " => " + fn
		result = model.MapSet(a, f)
	}
	c.Expect = result.Key()
	c.Tags = tagsOf(append(r.vals, a, b, x, result)...)
	classes = append(classes, "res:"+reprKind(result))
	classes = append(classes, r.formList()...)
	for _, tg := range c.Tags {
		classes = append(classes, "tag:"+tg)
	}
	ka, kr := reprKind(a), reprKind(result)
	nt := strings.ContainsAny(ka, "+") || ka == "union" || ka == "superimposed" || ka == "dict+multi"
	if b != nil {
		kb := reprKind(b)
		nt = nt || (ka != kb && len(a.Elems) > 0 && len(b.Elems) > 0) || strings.Contains(kb, "+") || (kr != ka && kr != kb)
	} else {
		nt = nt || (kr != ka && result.K == model.KSet)
	}
	return c, nt, classes
}

func allHaveNumAt(a *model.V) bool {
	if len(a.Elems) == 0 {
		return false
	}
	for _, e := range a.Elems {
		at, ok := e.Get("@")
		if !ok || !at.IsNum() {
			return false
		}
	}
	return true
}

func allNumItems(sv *model.SeqView) bool {
	for _, it := range sv.Items {
		if it != nil {
			if _, ok := it.IsInt(); !ok {
				return false
			}
		}
	}
	return true
}

// valueSig classifies a value-level failure into a known-finding signature
// from the model-side features of the case (never from what went wrong alone).
func valueSig(c EvalCase, kind string) string {
	switch {
	case c.hasTag("pinned-sugar-literal"):
		return "panic@rel.newSugarTupleStrict"
	case c.hasTag("superimposed"):
		return "seq-superimposed-index"
	case c.hasTag("bytes-sparse"):
		return "bytes-sparse"
	case c.hasTag("odd-sugar"):
		return "sugar-tuple-coercion"
	}
	return ""
}

func checkSetCase(c setCase) *Failure {
	kind, detail, _ := evalMismatch(c.EvalCase)
	if kind == "" {
		return nil
	}
	sig := valueSig(c.EvalCase, kind)
	if known("C01", sig) {
		return nil
	}
	return mkFailure("C01", "C01/setop", sig, detail, c)
}

func init() {
	register("C01/setop", func(raw json.RawMessage) *Failure {
		var c setCase
		if err := json.Unmarshal(raw, &c); err != nil {
			return &Failure{Property: "C01", Check: "C01/setop", Detail: "bad case: " + err.Error()}
		}
		return checkSetCase(c)
	})
}

func TestC01(t *testing.T) {
	rapid.Check(t, func(t *rapid.T) {
		c, nt, classes := genC01(t)
		stats.Case(nt, c.Src, classes...)
		report(t, checkSetCase(c))
	})
}
