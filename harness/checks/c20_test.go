package checks

import (
	"bytes"
	"encoding/json"
	"fmt"
	"regexp"
	"sort"
	"strconv"
	"strings"
	"testing"
	"time"

	"github.com/spf13/afero"
	"pgregory.net/rapid"

	arraitest "github.com/arr-ai/arrai/pkg/test"

	"verif/model"
	"verif/obs"
)

// C20 — arrai test passes exactly when every leaf of every test file is true.

type testFileSpec struct {
	Path string `json:"path"`
	Src  string `json:"src"`
	// Tree is the model key of the value the file evaluates to ("" if the file
	// is not a test file or does not evaluate)
	Tree string `json:"tree,omitempty"`
	// Role: test (counted), hidden (in a dot directory), other (not *_test.arrai), broken (fails to compile/evaluate)
	Role string `json:"role"`
}

type testRunCase struct {
	Files []testFileSpec `json:"files"`
	Tags  []string       `json:"tags,omitempty"`
}

var c20Cfg = gcfg{oddSugar: false, superimposed: false, quotedNames: false}

// genTestTree draws a result tree: tuples, arrays and dicts as containers.
func genTestTree(t *rapid.T, depth int, allTrue bool) *model.V {
	leaf := func() *model.V {
		if allTrue || chance(t, "true", 70) {
			return model.True
		}
		switch rapid.IntRange(0, 7).Draw(t, "leafkind") {
		case 0, 1:
			return model.None // false
		case 2:
			return model.Num(1)
		case 3:
			return model.Str(0, "x")
		case 4:
			return model.SetOf(model.Num(1), model.Num(2))
		case 5:
			return model.SetOf(model.Tup("a", 1), model.Tup("a", 2)) // relation
		case 6:
			return model.SetOf(model.True) // {true}
		default:
			return model.Byt(0, []byte{1})
		}
	}
	if depth <= 0 {
		return leaf()
	}
	switch rapid.IntRange(0, 9).Draw(t, "nodekind") {
	case 0, 1, 2: // tuple
		n := rapid.IntRange(0, 3).Draw(t, "tlen")
		m := map[string]*model.V{}
		for _, name := range rapid.Permutation([]string{"a", "b", "c", "t1"}).Draw(t, "tnames")[:n] {
			m[name] = genTestTree(t, depth-1, allTrue)
		}
		return model.TupMap(m)
	case 3, 4: // array, maybe with offset or hole
		n := rapid.IntRange(1, 3).Draw(t, "alen")
		items := make([]*model.V, n)
		for i := range items {
			items[i] = genTestTree(t, depth-1, allTrue)
		}
		off := 0
		if chance(t, "off", 20) {
			off = rapid.IntRange(1, 2).Draw(t, "offv")
		}
		if n == 3 && chance(t, "hole", 25) {
			items[1] = nil
		}
		return model.Arr(off, items...)
	case 5, 6: // dict, maybe multi-valued, maybe non-string keys
		n := rapid.IntRange(1, 3).Draw(t, "dlen")
		var kv []*model.V
		for i := 0; i < n; i++ {
			var k *model.V
			if chance(t, "strkey", 70) {
				k = model.Str(0, pick(t, "key", "k", "j", "m n"))
			} else {
				k = pick(t, "okey", model.Num(1), model.Tup("a", 1), model.SetOf(model.Num(1)))
			}
			kv = append(kv, k, genTestTree(t, depth-1, allTrue))
		}
		if chance(t, "multi", 15) {
			kv = append(kv, kv[0], genTestTree(t, depth-1, allTrue))
		}
		return model.Dict(kv...)
	default:
		return leaf()
	}
}

type leafCensus struct {
	pass, fail, invalid int
	names               []string
	namesExact          bool
}

// census walks a tree the way the property describes: tuples, arrays (non-empty
// sets of (@: int, @item) without two items at one index) and dictionaries
// (non-empty sets of (@, @value)) are containers, everything else is a leaf.
func (c *leafCensus) walk(v *model.V, path string) {
	path = strings.TrimPrefix(path, ".")
	if v.K == model.KTup {
		for i, n := range v.Names {
			c.walk(v.Vals[i], path+"."+n)
		}
		return
	}
	if v.K == model.KSet && len(v.Elems) > 0 {
		if sv, ok := v.AsSeq(); ok && sv.Attr == "@item" {
			if sv.Off != 0 || sv.Holes > 0 {
				c.namesExact = false // labels of offset/sparse arrays are only required to be stable
			}
			for i, it := range sv.Items {
				if it != nil {
					c.walk(it, fmt.Sprintf("%s(%d)", path, i))
				}
			}
			return
		}
		if kv, ok := v.AsDict(); ok {
			for _, e := range kv {
				name := ""
				if ksv, isStr := e[0].AsSeq(); isStr && ksv.Attr == "@char" && ksv.Off == 0 && ksv.Holes == 0 {
					s, _ := ksv.PlainString()
					name = "'" + s + "'"
				} else {
					c.namesExact = false
				}
				c.walk(e[1], fmt.Sprintf("%s(%s)", path, name))
			}
			return
		}
	}
	c.names = append(c.names, path)
	switch {
	case model.Eq(v, model.True):
		c.pass++
	case model.Eq(v, model.None):
		c.fail++
	default:
		c.invalid++
	}
}

func genC20(t *rapid.T) (testRunCase, bool, []string) {
	g := c20Cfg
	r := newRenderer(t)
	var c testRunCase
	allTrue := chance(t, "alltrue", 45)
	nfiles := rapid.IntRange(0, 3).Draw(t, "nfiles")
	dirs := []string{"/t", "/t/sub", "/t/sub/deep", "/t/x.d"}
	classes := []string{fmt.Sprintf("files:%d", nfiles)}
	var trees []*model.V
	for i := 0; i < nfiles; i++ {
		tree := genTestTree(t, 3, allTrue)
		if !clean(tree) {
			tree = model.Tup("a", true)
		}
		trees = append(trees, tree)
		c.Files = append(c.Files, testFileSpec{
			Path: fmt.Sprintf("%s/f%d_test.arrai", pick(t, "dir", dirs...), i),
			Src:  r.deep(g, tree, 25), Tree: tree.Key(), Role: "test"})
	}
	if chance(t, "hidden", 30) {
		c.Files = append(c.Files, testFileSpec{Path: pick(t, "hdir", "/t/.hidden", "/t/sub/.git") + "/h_test.arrai", Src: pick(t, "hsrc", "false", "(a: 1)", "this is not arr.ai ((("), Role: "hidden"})
		classes = append(classes, "hidden-dir")
	}
	if chance(t, "other", 30) {
		c.Files = append(c.Files, testFileSpec{Path: pick(t, "opath", "/t/lib.arrai", "/t/sub/notes.txt", "/t/x_test.arrai.bak", "/t/test.arrai"), Src: pick(t, "osrc", "false", "garbage (((", "(a: false)"), Role: "other"})
		classes = append(classes, "non-test-file")
	}
	if chance(t, "broken", 15) {
		c.Files = append(c.Files, testFileSpec{Path: pick(t, "bdir", "/t", "/t/sub", "/t/zz") + "/broken_test.arrai", Src: pick(t, "bsrc", "(a: true))", "(a: undefinedName)", "(a: 1(2))", `(a: //test.assert.equal(1, 2))`), Role: "broken"})
		classes = append(classes, "broken-file")
	}
	c.Tags = tagsOf(append(r.vals, trees...)...)
	nt := nfiles >= 2
	for _, tr := range trees {
		if tr.Depth() >= 3 {
			nt = true
		}
		tr.Walk(func(x *model.V) {
			if sv, ok := x.AsSeq(); ok && sv.Attr == "@item" && (sv.Off != 0 || sv.Holes > 0) {
				nt = true
				classes = append(classes, "offset-or-sparse-array")
			}
		})
	}
	classes = append(classes, r.formList()...)
	return c, nt, uniq(classes)
}

var (
	ansiRE    = regexp.MustCompile("\x1b\\[[0-9;]*m")
	summaryRE = regexp.MustCompile(`(?:(\d+) failed, )?(?:(\d+) invalid, )?(?:(\d+) ignored, )?(\d+) passed of (\d+) total tests`)
)

func checkTestRunCase(c testRunCase) *Failure {
	type res struct{ f *Failure }
	ch := make(chan res, 1)
	go func() { ch <- res{checkTestRunCase1(c)} }()
	select {
	case r := <-ch:
		return r.f
	case <-time.After(hangBound):
		return mkFailure("C20", "C20/testrun", "", "the test run did not finish", c)
	}
}

func checkTestRunCase1(c testRunCase) *Failure {
	sig := valueSig(EvalCase{Tags: c.Tags}, "")
	fail := func(format string, args ...interface{}) *Failure {
		if known("C20", sig) {
			return nil
		}
		var listing []string
		for _, f := range c.Files {
			listing = append(listing, fmt.Sprintf("  %s [%s]: %s", f.Path, f.Role, f.Src))
		}
		return mkFailure("C20", "C20/testrun", sig, "files:\n"+strings.Join(listing, "\n")+"\n"+fmt.Sprintf(format, args...), c)
	}
	fs := afero.NewMemMapFs()
	_ = fs.MkdirAll("/t", 0o755)
	census := leafCensus{namesExact: true}
	ntest, broken := 0, false
	for _, f := range c.Files {
		_ = afero.WriteFile(fs, f.Path, []byte(f.Src), 0o644)
		switch f.Role {
		case "test":
			ntest++
			tree, err := model.ParseKey(f.Tree)
			if err != nil {
				return &Failure{Property: "C20", Check: "C20/testrun", Detail: "bad case: " + err.Error()}
			}
			census.walk(tree, "")
		case "broken":
			ntest++
			broken = true
		}
	}
	ctx := obs.CtxFs(fs, afero.NewMemMapFs())
	var buf bytes.Buffer
	var runErr error
	panicked := ""
	func() {
		defer func() {
			if r := recover(); r != nil {
				panicked = fmt.Sprint(r)
			}
		}()
		runErr = arraitest.RunTests(ctx, &buf, "/t")
	}()
	report := ansiRE.ReplaceAllString(buf.String(), "")
	if panicked != "" {
		return fail("the test runner crashed: %s", panicked)
	}
	wantOK := ntest >= 1 && !broken && census.fail == 0 && census.invalid == 0
	if (runErr == nil) != wantOK {
		return fail("the run %s (error: %v) but %d test files, broken=%v, leaves: %d true, %d false, %d neither\nreport:\n%s",
			map[bool]string{true: "passed", false: "failed"}[runErr == nil], runErr, ntest, broken, census.pass, census.fail, census.invalid, report)
	}
	if ntest == 0 || broken {
		return nil // no report is required when the run cannot start or a file does not evaluate
	}
	var pass, failN, inv int
	var names []string
	for _, line := range strings.Split(report, "\n") {
		switch {
		case strings.HasPrefix(line, "PASS  "):
			pass++
			names = append(names, strings.TrimSpace(line[6:]))
		case strings.HasPrefix(line, "FAIL  "):
			failN++
			names = append(names, strings.TrimSpace(line[6:]))
		case strings.HasPrefix(line, " ??   "):
			inv++
			names = append(names, strings.TrimSpace(line[6:]))
		}
	}
	if pass != census.pass || failN != census.fail || inv != census.invalid {
		return fail("the report lists %d PASS, %d FAIL, %d ?? lines; the trees have %d true, %d false, %d other leaves\nreport:\n%s",
			pass, failN, inv, census.pass, census.fail, census.invalid, report)
	}
	m := summaryRE.FindStringSubmatch(report)
	if m == nil {
		return fail("no summary line in the report:\n%s", report)
	}
	num := func(s string) int { n, _ := strconv.Atoi(s); return n }
	if num(m[1]) != census.fail || num(m[2]) != census.invalid || num(m[4]) != census.pass || num(m[5]) != census.pass+census.fail+census.invalid {
		return fail("the summary %q does not add up to the leaves (%d true, %d false, %d other)", m[0], census.pass, census.fail, census.invalid)
	}
	if census.namesExact {
		want := append([]string{}, census.names...)
		sort.Strings(want)
		sort.Strings(names)
		if strings.Join(want, "\n") != strings.Join(names, "\n") {
			return fail("leaf paths in the report differ from the trees\n  reported: %q\n  expected: %q", names, want)
		}
	}
	return nil
}

func init() {
	register("C20/testrun", func(raw json.RawMessage) *Failure {
		var c testRunCase
		if err := json.Unmarshal(raw, &c); err != nil {
			return &Failure{Property: "C20", Check: "C20/testrun", Detail: "bad case: " + err.Error()}
		}
		return checkTestRunCase(c)
	})
}

func TestC20(t *testing.T) {
	rapid.Check(t, func(t *rapid.T) {
		c, nt, classes := genC20(t)
		raw, _ := json.Marshal(c)
		stats.Case(nt, string(raw), classes...)
		report(t, checkTestRunCase(c))
	})
}
