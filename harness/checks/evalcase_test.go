package checks

import (
	"fmt"
	"sort"
	"strings"
	"time"

	"verif/model"
	"verif/obs"
)

// EvalCase is the common shape of value-level cases: an arr.ai program and
// what the reference model says it must evaluate to.
type EvalCase struct {
	Src string `json:"src"`
	// Expect is the model key of the expected value, or
	//   "!fail"    – evaluation must not produce a value (error expected),
	//   "!nopanic" – any value or error, but no panic.
	Expect string `json:"expect"`
	// Tags carries the features that known-finding signatures look at
	// (computed from the model values of the case, never from the outcome).
	Tags []string `json:"tags,omitempty"`
	Note string   `json:"note,omitempty"`
	// OrFail: an ordinary error is also acceptable (the operation may reject
	// what it cannot represent, but must not change it silently).
	OrFail bool `json:"or_fail,omitempty"`
}

const (
	expectFail    = "!fail"
	expectNoPanic = "!nopanic"
)

func (c EvalCase) hasTag(t string) bool {
	for _, x := range c.Tags {
		if x == t {
			return true
		}
	}
	return false
}

// evalMismatch evaluates the case and describes the disagreement with the
// expectation ("" if none). kind classifies the disagreement:
// panic | error | wrong-value | anomaly | unexpected-value.
func evalMismatch(c EvalCase) (kind, detail string, out obs.Outcome) {
	type res struct {
		kind, detail string
		out          obs.Outcome
	}
	ch := make(chan res, 1)
	go func() {
		k, d, o := evalMismatch1(c)
		ch <- res{k, d, o}
	}()
	select {
	case r := <-ch:
		return r.kind, r.detail, r.out
	case <-time.After(hangBound):
		return "hang", fmt.Sprintf("program: %s\nexpected: %s\nobserved: evaluating or enumerating the result did not finish within %v", c.Src, c.Expect, hangBound),
			obs.Outcome{Kind: "hang"}
	}
}

// hangBound is far above the milliseconds any generated case needs.
const hangBound = 20 * time.Second

func evalMismatch1(c EvalCase) (kind, detail string, out obs.Outcome) {
	if !strings.HasPrefix(c.Expect, "!") {
		// hand-written expectations (witnesses) need not be in canonical order
		if v, err := model.ParseKey(c.Expect); err == nil {
			c.Expect = v.Key()
		}
	}
	out = obs.Eval(c.Src)
	switch out.Kind {
	case "panic":
		if c.Expect == expectFail {
			// the model says the program has no value; a panic instead of an
			// error is C10's concern, not a wrong result
			return "", "", out
		}
		return "panic", fmt.Sprintf("program: %s\nexpected: %s\nobserved: %s", c.Src, c.Expect, out), out
	case "error":
		if c.Expect == expectFail || c.Expect == expectNoPanic || c.OrFail {
			return "", "", out
		}
		return "error", fmt.Sprintf("program: %s\nexpected: %s\nobserved: %s", c.Src, c.Expect, out), out
	}
	if c.Expect == expectNoPanic {
		return "", "", out
	}
	got, anomalies := obs.Denote(out.Value)
	if c.Expect == expectFail {
		return "unexpected-value", fmt.Sprintf("program: %s\nexpected: failure (the model gives the program no value)\nobserved: %s", c.Src, got.Key()), out
	}
	if got.Key() != c.Expect {
		return "wrong-value", fmt.Sprintf("program: %s\nexpected: %s\nobserved: %s\nprinted:  %s (%T)", c.Src, c.Expect, got.Key(), obs.Repr(out.Value), out.Value), out
	}
	if len(anomalies) > 0 {
		return "anomaly", fmt.Sprintf("program: %s\nvalue denotes the expected %s but is internally inconsistent: %s (%T)",
			c.Src, c.Expect, strings.Join(anomalies, "; "), out.Value), out
	}
	return "", "", out
}

// tagsOf computes signature-relevant features of the model values involved in
// a case (operands, intermediates, result).
func tagsOf(vs ...*model.V) []string {
	seen := map[string]bool{}
	var tags []string
	add := func(t string) {
		if !seen[t] {
			seen[t] = true
			tags = append(tags, t)
		}
	}
	for _, v := range vs {
		if v == nil {
			continue
		}
		v.Walk(func(x *model.V) {
			if x.K == model.KTup {
				if pinnedSugarLiteral(x.Names, x.Vals) {
					// written as a literal this tuple panics by design (the repository's
					// tests pin it: C10 finding panic@rel.newSugarTupleStrict)
					add("pinned-sugar-literal")
				}
				if a, ok := x.SugarAttr(); ok && a != "@value" {
					at, _ := x.Get("@")
					val, _ := x.Get(a)
					_, atInt := at.IsInt()
					n, valInt := val.IsInt()
					if !atInt || (a == "@char" && (!valInt || n < 0)) || (a == "@byte" && (!valInt || n < 0 || n > 255)) {
						add("odd-sugar")
					}
				}
			}
			if x.K != model.KSet {
				return
			}
			if x.HasSuperimposed() {
				add("superimposed")
			}
			// byte tuples anywhere in a set end up in one Bytes bucket: gaps
			// between their indices cannot be represented
			if idx := byteIdx(x); len(idx) > 0 {
				m := map[int]bool{}
				for _, i := range idx {
					m[i] = true
				}
				if gapped(m) {
					add("bytes-sparse")
				}
			}
			if sv, ok := x.AsSeq(); ok {
				if sv.Attr == "@char" && sv.Holes > 0 {
					add("string-holes")
				}
			}
			// two dict entries with one key
			keys := map[string]bool{}
			for _, e := range x.Elems {
				if a, ok := e.SugarAttr(); ok && a == "@value" {
					at, _ := e.Get("@")
					if keys[at.Key()] {
						add("dict-multi")
					}
					keys[at.Key()] = true
				}
			}
		})
	}
	if !seen["bytes-sparse"] && bytesTransientSparse(vs) {
		add("bytes-sparse")
	}
	return tags
}

// byteIdx returns the indices of the byte tuples directly in set v.
func byteIdx(v *model.V) []int {
	var idx []int
	if v == nil || v.K != model.KSet {
		return nil
	}
	for _, e := range v.Elems {
		if a, ok := e.SugarAttr(); ok && a == "@byte" {
			at, _ := e.Get("@")
			bv, _ := e.Get("@byte")
			// only tuples the Bytes representation can hold land in its bucket
			if b, ok := bv.IsInt(); ok && b >= 0 && b <= 255 {
				if i, ok := at.IsInt(); ok {
					idx = append(idx, i)
				}
			}
		}
	}
	sort.Ints(idx)
	return idx
}

func gapped(m map[int]bool) bool {
	if len(m) == 0 {
		return false
	}
	lo, hi := 1<<30, -(1 << 30)
	for i := range m {
		if i < lo {
			lo = i
		}
		if i > hi {
			hi = i
		}
	}
	return hi-lo+1 > len(m)
}

// bytesTransientSparse reports whether combining two of the given sets one
// member at a time (as |, &~ and ~~ do) passes through a byte array with a
// gap, which the implementation cannot represent (known finding bytes-sparse)
// even though operands and result have none.
func bytesTransientSparse(vs []*model.V) bool {
	var sets [][]int
	for _, v := range vs {
		if v == nil {
			continue
		}
		v.Walk(func(x *model.V) {
			if idx := byteIdx(x); len(idx) > 0 && len(sets) < 24 {
				sets = append(sets, idx)
			}
		})
	}
	for _, a := range sets {
		for _, b := range sets {
			add, del := map[int]bool{}, map[int]bool{}
			for _, i := range a {
				add[i], del[i] = true, true
			}
			for _, i := range b {
				add[i] = true
				delete(del, i)
				if gapped(add) || gapped(del) {
					return true
				}
			}
		}
	}
	return false
}
