package checks

import (
	"encoding/json"
	"fmt"
	"strings"
	"testing"

	"pgregory.net/rapid"

	"github.com/arr-ai/arrai/rel"

	"verif/model"
	"verif/obs"
)

// C06 — < is a strict total order consistent with =, and sorting follows it.
//
// The oracle imposes no particular order: it only checks the order laws on the
// answers the implementation itself gives (trichotomy against model equality,
// transitivity, derived relations, orderby/min/max/printing consistent with <).

type ordCase struct {
	Src   string   `json:"src"`
	Exprs []string `json:"exprs,omitempty"` // hand-written witnesses: the program is built from these
	Keys  []string `json:"keys"` // model keys of the k values, in program order
	Tags  []string `json:"tags,omitempty"`
	Print bool     `json:"print"` // also check the printed member order
}

var c06Cfg = gcfg{oddSugar: true, superimposed: false, quotedNames: true}

func genC06(t *rapid.T) (ordCase, bool, []string) {
	g := c06Cfg
	depth := 2
	if thorough() {
		depth = 3
	}
	r := newRenderer(t)
	k := rapid.IntRange(2, 4).Draw(t, "k")
	var vals []*model.V
	relFamily := chance(t, "relfamily", 12)
	if relFamily {
		// relations with the same heading built through joins: their physical
		// column layouts differ
		r.prefer = "join-split"
	}
	for i := 0; i < k; i++ {
		var v *model.V
		switch {
		case relFamily && i == 0:
			h := genHeading(t, plainNames, 2, 3)
			v = genRows(t, h, rapid.IntRange(1, 4).Draw(t, "nrows"), 0, 2)
		case i > 0 && chance(t, "same", 15):
			v = vals[rapid.IntRange(0, i-1).Draw(t, "dup")]
		case i > 0 && chance(t, "near", 35):
			v = g.mutate(t, vals[rapid.IntRange(0, i-1).Draw(t, "base")])
		default:
			v = g.genVal(t, depth)
		}
		if chance(t, "neg", 8) && v.K != model.KNum {
			v = model.Tup("@neg", v)
		}
		vals = append(vals, v)
	}
	keys := make([]string, k)
	exprs := make([]string, k)
	kinds := map[string]bool{}
	for i, v := range vals {
		pct := pick(t, "pct", 0, 0, 40)
		if relFamily {
			pct = pick(t, "pctrel", 0, 90, 90)
		}
		exprs[i] = r.deep(g, v, pct)
		keys[i] = v.Key()
		kinds[reprKind(v)] = true
	}
	c := ordCase{Src: ordProgram(exprs), Keys: keys}
	c.Tags = tagsOf(append(r.vals, append(vals, model.SetOf(vals...))...)...)
	// printed order is only checked for sets without sugar (a string prints as text)
	sk := reprKind(model.SetOf(vals...))
	c.Print = sk == "generic" || sk == "tuples" || sk == "relation" || sk == "union"
	var kl []string
	for kk := range kinds {
		kl = append(kl, "kind:"+kk)
	}
	classes := append(kl, r.formList()...)
	for _, tg := range c.Tags {
		classes = append(classes, "tag:"+tg)
	}
	nt := len(kinds) >= 2
	for kk := range kinds {
		if strings.Contains(kk, "+") || kk == "relation" || kk == "union" {
			nt = true
		}
	}
	return c, nt, classes
}

// ordProgram builds the program that reports the < and = matrices of the
// expressions, the derived relations of the first pair, and how the set of all
// of them sorts and prints.
func ordProgram(exprs []string) string {
	names := []string{"a", "b", "c", "d"}[:len(exprs)]
	var sb strings.Builder
	for i, e := range exprs {
		fmt.Fprintf(&sb, "let %s = %s; ", names[i], e)
	}
	row := func(op string) string {
		var rows []string
		for _, x := range names {
			var cells []string
			for _, y := range names {
				cells = append(cells, x+" "+op+" "+y)
			}
			rows = append(rows, "["+strings.Join(cells, ", ")+"]")
		}
		return "[" + strings.Join(rows, ", ") + "]"
	}
	fmt.Fprintf(&sb, "let s = {%s}; (lt: %s, eq: %s, le: a <= b, ge: a >= b, gt: a > b, ne: a != b, o: s orderby ., o2: ({%s} | {}) orderby ., mx: s max ., mn: s min ., "+
		"printed: //str.repr(s), items: //seq.join(', ', (s orderby .) >> //str.repr(.)))",
		strings.Join(names, ", "), row("<"), row("="), strings.Join(reverse(names), ", "))
	return sb.String()
}

func reverse(xs []string) []string {
	out := make([]string, len(xs))
	for i, x := range xs {
		out[len(xs)-1-i] = x
	}
	return out
}

func boolOf(v rel.Value) (bool, bool) {
	m, _ := obs.Denote(v)
	switch {
	case model.Eq(m, model.True):
		return true, true
	case model.Eq(m, model.None):
		return false, true
	}
	return false, false
}

func matrixOf(v rel.Value, k int) ([][]bool, error) {
	arr, ok := v.(rel.Array)
	if !ok || len(arr.Values()) != k {
		return nil, fmt.Errorf("not a %d-row matrix: %s", k, obs.Repr(v))
	}
	m := make([][]bool, k)
	for i, rowv := range arr.Values() {
		row, ok := rowv.(rel.Array)
		if !ok || len(row.Values()) != k {
			// a row of all false is [{}...]: still an array; anything else is malformed
			return nil, fmt.Errorf("row %d malformed: %s", i, obs.Repr(rowv))
		}
		m[i] = make([]bool, k)
		for j, cell := range row.Values() {
			b, ok := boolOf(cell)
			if !ok {
				return nil, fmt.Errorf("cell %d,%d not boolean: %s", i, j, obs.Repr(cell))
			}
			m[i][j] = b
		}
	}
	return m, nil
}

func checkOrdCase(c ordCase) *Failure {
	fail := func(sig, format string, args ...interface{}) *Failure {
		if known("C06", sig) {
			return nil
		}
		return mkFailure("C06", "C06/order", sig, "program: "+c.Src+"\n"+fmt.Sprintf(format, args...), c)
	}
	if c.Src == "" {
		c.Src = ordProgram(c.Exprs)
		for i, k := range c.Keys {
			if v, err := model.ParseKey(k); err == nil {
				c.Keys[i] = v.Key()
			}
		}
	}
	tagSig := valueSig(EvalCase{Tags: c.Tags}, "")
	out := obs.EvalTimeout(obs.Ctx(), c.Src, hangBound)
	if out.Kind != "value" {
		return fail(tagSig, "comparing/sorting data values must give a value; observed: %s", out)
	}
	tup, ok := out.Value.(rel.Tuple)
	if !ok {
		return fail(tagSig, "unexpected result %s", obs.Repr(out.Value))
	}
	get := func(n string) rel.Value { v, _ := tup.Get(n); return v }
	k := len(c.Keys)
	lt, err := matrixOf(get("lt"), k)
	if err != nil {
		return fail(tagSig, "lt %v", err)
	}
	eq, err := matrixOf(get("eq"), k)
	if err != nil {
		return fail(tagSig, "eq %v", err)
	}
	nm := []string{"a", "b", "c", "d"}
	for i := 0; i < k; i++ {
		for j := 0; j < k; j++ {
			same := c.Keys[i] == c.Keys[j]
			if eq[i][j] != same {
				return fail(tagSig, "%s = %s is %v but the values are %s\n  %s\n  %s", nm[i], nm[j], eq[i][j], map[bool]string{true: "equal", false: "different"}[same], c.Keys[i], c.Keys[j])
			}
			n := 0
			for _, b := range []bool{lt[i][j], eq[i][j], lt[j][i]} {
				if b {
					n++
				}
			}
			if n != 1 {
				return fail(tagSig, "trichotomy: %s < %s = %v, %s = %s = %v, %s < %s = %v (exactly one must hold)\n  %s = %s\n  %s = %s",
					nm[i], nm[j], lt[i][j], nm[i], nm[j], eq[i][j], nm[j], nm[i], lt[j][i], nm[i], c.Keys[i], nm[j], c.Keys[j])
			}
			for l := 0; l < k; l++ {
				if lt[i][j] && lt[j][l] && !lt[i][l] {
					return fail(tagSig, "transitivity: %s < %s and %s < %s but not %s < %s\n  %s\n  %s\n  %s", nm[i], nm[j], nm[j], nm[l], nm[i], nm[l], c.Keys[i], c.Keys[j], c.Keys[l])
				}
			}
		}
	}
	for name, want := range map[string]bool{"le": lt[0][1] || eq[0][1], "ge": lt[1][0] || eq[0][1], "gt": lt[1][0], "ne": !eq[0][1]} {
		got, ok := boolOf(get(name))
		if !ok || got != want {
			return fail(tagSig, "derived relation %s(a, b) = %s, expected %v from < and =", name, obs.Repr(get(name)), want)
		}
	}
	// orderby: a permutation of the distinct values, sorted by the implementation's own <
	idx := map[string]int{}
	distinct := 0
	for i, key := range c.Keys {
		if _, dup := idx[key]; !dup {
			idx[key] = i
			distinct++
		}
	}
	var firstOrder []int
	for _, oname := range []string{"o", "o2"} {
		om, _ := obs.Denote(get(oname))
		sv, isSeq := om.AsSeq()
		if distinct == 0 || !isSeq || sv.Attr != "@item" || sv.Off != 0 || sv.Holes != 0 || len(sv.Items) != distinct {
			return fail(tagSig, "%s = %s is not an array of the %d distinct members", oname, obs.Repr(get(oname)), distinct)
		}
		var order []int
		seen := map[int]bool{}
		for _, it := range sv.Items {
			i, ok := idx[it.Key()]
			if !ok || seen[i] {
				return fail(tagSig, "%s = %s is not a permutation of the members (unexpected or repeated %s)", oname, obs.Repr(get(oname)), it.Key())
			}
			seen[i] = true
			order = append(order, i)
		}
		for p := 0; p+1 < len(order); p++ {
			if !lt[order[p]][order[p+1]] {
				return fail(tagSig, "%s = %s is not sorted by <: position %d holds %s, position %d holds %s, but %s < %s is false",
					oname, obs.Repr(get(oname)), p, nm[order[p]], p+1, nm[order[p+1]], nm[order[p]], nm[order[p+1]])
			}
		}
		if firstOrder == nil {
			firstOrder = order
		}
	}
	mx, _ := obs.Denote(get("mx"))
	mn, _ := obs.Denote(get("mn"))
	if mx.Key() != c.Keys[firstOrder[len(firstOrder)-1]] || mn.Key() != c.Keys[firstOrder[0]] {
		return fail(tagSig, "max/min disagree with orderby: max %s min %s, sorted %s", obs.Repr(get("mx")), obs.Repr(get("mn")), obs.Repr(get("o")))
	}
	if c.Print {
		printed, _ := get("printed").(rel.String)
		items, _ := get("items").(rel.String)
		ps, is := printed.String(), items.String()
		inner := strings.TrimSuffix(strings.TrimPrefix(ps, "{"), "}")
		if strings.HasPrefix(ps, "{|") {
			// relation literal form prints a heading; order of rows is checked through orderby only
			return nil
		}
		if inner != is {
			return fail(tagSig, "printed member order differs from the < order:\n  printed: %s\n  sorted:  {%s}", ps, is)
		}
	}
	return nil
}

func init() {
	register("C06/order", func(raw json.RawMessage) *Failure {
		var c ordCase
		if err := json.Unmarshal(raw, &c); err != nil {
			return &Failure{Property: "C06", Check: "C06/order", Detail: "bad case: " + err.Error()}
		}
		return checkOrdCase(c)
	})
}

func TestC06(t *testing.T) {
	rapid.Check(t, func(t *rapid.T) {
		c, nt, classes := genC06(t)
		stats.Case(nt, c.Src, classes...)
		report(t, checkOrdCase(c))
	})
}
