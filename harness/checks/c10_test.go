package checks

import (
	"encoding/json"
	"errors"
	"fmt"
	"regexp"
	"sort"
	"strings"
	"sync"
	"sync/atomic"
	"testing"
	"time"

	"pgregory.net/rapid"

	"github.com/arr-ai/arrai/rel"
	"github.com/arr-ai/arrai/syntax"

	"verif/model"
	"verif/obs"
)

// C10 — every program ends in a value or an error, never a crash or a hang.

type crashCase struct {
	Src  string `json:"src"`
	Mode string `json:"mode"`
	// Render: also render a wbnf parse error (only set by recorded witnesses)
	Render bool `json:"render,omitempty"`
}

var hostile = []string{
	`"\x`, `"\u12`, `'\q'`, `"\101"`, `{:`, `//{`, `//{./x}`, `...`, `a unnest b`, `->*`, `x ->* a (1)`, `(@: "x", @char: 1)`, `[1] | [2]`, `<<1>> < <<2>>`,
	`//seq.repeat(-1, "ab")`, `1 (<) 2`, `{|a, | (1)}`, `{|a, x y| (1, 2)}`, `let {[a, b], 1} = {[1, 2], 1}; a`, `//eval.value("1 +")`, `\\x x`, `$"${`, `%`, `%\`,
	`cond {`, `{} nest |a|n`, `{(a: 1)} nest |b|n`, `1\2`, `"a" ++ 1`, `[1, 2](1:`, `[1,2,3](1:2:0)`, `//str.repr`, `(a: 1).b?.c:2`,
	`{1: 2}(1)?:3`, `-{}`, `^"ab"`, `{1, 2} single`, `1 single`, `{} rank (r: .x)`, `{3, (a: 1)} rank (r: .)`, `[1, 2] >>> 3`, `//fn.fix(1)`, `//re.compile("(")`,
	`//encoding.json.decode("{")`, `//encoding.json.encode({1: 2})`, `//bits.set(1.5)`, `//math.sin("a")`, `//str.sub("a")`, `1 -> \[a, b] a`, `{1} -> \{a, b} a`,
	`(\x x)(1)(2)`, `//dict({1})`, `//tuple({1})`, `//rel.union(1)`, `//test.suite(1)`, `//grammar.parse(1, 2, 3)`, `{:x:1:}`, `//flag.parser(1)`,
}

func genC10(t *rapid.T) (crashCase, bool, []string) {
	mode := pick(t, "mode", "illtyped", "illtyped", "illtyped", "stdlib", "stdlib", "bytes", "bytes", "values", "seqfn", "seqfn", "edit-chain", "edit-chain", "xstr")
	switch mode {
	case "xstr":
		// expression strings: ${expr:format:delimiter:tail} with values of every kind
		g := gcfg{quotedNames: true}
		r := newRenderer(t)
		quote := pick(t, "quote", `"`, `"`, "'", "`")
		var sb strings.Builder
		sb.WriteString("$" + quote)
		classes := []string{"mode:xstr"}
		for i, n := 0, rapid.IntRange(1, 3).Draw(t, "parts"); i < n; i++ {
			if chance(t, "text", 40) {
				sb.WriteString(pick(t, "text", "a", " ", "\n", "\n  ", "x: ", "}", "$", "\\", ":", "  b\n c"))
				continue
			}
			var expr string
			if chance(t, "smallexpr", 50) {
				expr = pick(t, "expr", "1", "1.5", `'a'`, "[1, 2]", `['a', 'b']`, "{}", "(a: 1)", "[[1], [2]]", "[]", "{1, 2}", "[1, , 3]", "2\\[1]", `{'a': 1}`, "<<97>>", "true", "\\x x", "//math.pi", "['a\nb', 'c']")
			} else {
				expr = r.lit(g.genVal(t, 2))
			}
			format := pick(t, "format", "", "", "s", "d", "q", "v", "03d", ".2f", "x", "t", "c", "5s", "-5s", "+d", "#x", "g", "o", "U", "e")
			ctl := ""
			switch pick(t, "ctl", "none", "format", "delim", "delim", "tail") {
			case "format":
				ctl = ":" + format
			case "delim":
				ctl = ":" + format + ":" + pick(t, "delim", "", ",", ", ", "\\n", "\\i", "-")
			case "tail":
				ctl = ":" + format + ":" + pick(t, "delim", "", ",", "\\n") + ":" + pick(t, "tail", "", "x", "\\n")
			}
			classes = append(classes, "ctl:"+strings.Trim(ctl, ":"))
			sb.WriteString("${" + expr + ctl + "}")
		}
		sb.WriteString(quote)
		return crashCase{Src: sb.String(), Mode: mode}, true, classes
	case "seqfn":
		// sequence functions on related arguments: each argument is a one-step
		// edit of the previous one (tail, init, one more at either end, same, empty)
		var fns []string
		for _, f := range safeStdFunctions() {
			if strings.HasPrefix(f, "//seq.") || strings.HasPrefix(f, "//str.") || strings.HasPrefix(f, "//re.") {
				fns = append(fns, f)
			}
		}
		fn := fns[rapid.IntRange(0, len(fns)-1).Draw(t, "fn")]
		kind := pick(t, "seqkind", "arr", "arr", "str", "str", "bytes")
		n := rapid.IntRange(0, 4).Draw(t, "len")
		items := make([]*model.V, n)
		newItem := func() *model.V {
			switch kind {
			case "str":
				return model.Num(float64(pick(t, "char", charAlphabet...)))
			case "bytes":
				return model.Num(float64(pick(t, "byte", byteAlphabet...)))
			}
			return model.Num(float64(rapid.IntRange(1, 3).Draw(t, "item")))
		}
		for i := range items {
			items[i] = newItem()
		}
		r := newRenderer(t)
		render := func(items []*model.V, off int) string {
			if len(items) == 0 {
				return map[string]string{"arr": "[]", "str": `""`, "bytes": "<<>>"}[kind]
			}
			return r.lit(model.Seq(seqAttrOfKind[kind], off, items...))
		}
		src := fn
		edits := []string{}
		for i, nargs := 0, rapid.IntRange(1, 3).Draw(t, "nargs"); i < nargs; i++ {
			if chance(t, "scalar", 15) {
				src += "(" + fmt.Sprint(rapid.IntRange(-1, 4).Draw(t, "n")) + ")"
				continue
			}
			off := 0
			if i > 0 || chance(t, "edit-first", 30) {
				e := pick(t, "edit", "tail", "tail", "init", "init", "append", "prepend", "same", "empty", "offset", "nest", "hole")
				edits = append(edits, e)
				switch e {
				case "tail":
					if len(items) > 0 {
						items = items[1:]
					}
				case "init":
					if len(items) > 0 {
						items = items[:len(items)-1]
					}
				case "append":
					items = append(append([]*model.V{}, items...), newItem())
				case "prepend":
					items = append([]*model.V{newItem()}, items...)
				case "empty":
					items = nil
				case "offset":
					off = rapid.IntRange(-1, 2).Draw(t, "off")
				case "hole":
					if len(items) >= 3 {
						items = append([]*model.V{}, items...)
						items[rapid.IntRange(1, len(items)-2).Draw(t, "at")] = nil
					}
				case "nest":
					src += "([" + render(items, 0) + "])"
					continue
				}
			}
			src += "(" + render(items, off) + ")"
		}
		return crashCase{Src: src, Mode: mode}, true, []string{"mode:seqfn", "fn:" + strings.SplitN(strings.TrimPrefix(fn, "//"), ".", 2)[0], "edits:" + strings.Join(edits, ",")}
	case "edit-chain":
		// a collection, members of it removed / put back, and then something that walks the result
		g := gcfg{quotedNames: true}
		r := newRenderer(t)
		a := g.genSetKind(t, pick(t, "coll", "arr", "arr", "arr", "str", "str", "bytes", "dict", "rel", "nums", "tuples", "mixed", "seqpairs"), 2)
		bexpr := "a"
		classes := []string{"mode:edit-chain"}
		for i, n := 0, rapid.IntRange(1, 2).Draw(t, "nedits"); i < n; i++ {
			var e *model.V
			if len(a.Elems) > 0 && !chance(t, "stranger", 15) {
				e = a.Elems[pick(t, "which", 0, len(a.Elems)-1, len(a.Elems)-1, rapid.IntRange(0, len(a.Elems)-1).Draw(t, "idx"))]
			} else {
				e = g.genVal(t, 1)
			}
			ed := pick(t, "edit", " without %s", " without %s", " with %s", " &~ {%s}", " | {%s}", " where . != %s")
			bexpr = "(" + bexpr + fmt.Sprintf(ed, r.lit(e)) + ")"
			classes = append(classes, "edit:"+strings.TrimSpace(strings.SplitN(ed, "%", 2)[0]))
		}
		src := "let a = " + r.lit(a) + "; let b = " + bexpr
		cons := pick(t, "consumer", "b => .", "b where true", "b count", "b orderby .", "//seq.concat([b, b])", "b = a", "//str.repr(b)", "b ++ b", `b >> \x x`, "b(0)", "{b}", "b | a", "b & a", "b <&> a", `b => \x [x]`, "//seq.join(b, [b])", "b rank (r: .)", "[b, a] orderby .", "b < a", "(b => .) count")
		classes = append(classes, "consumer:"+cons)
		return crashCase{Src: src + "; " + cons, Mode: mode}, true, classes

	case "illtyped":
		g := &pgen{t: t, illTyped: pick(t, "rate", 15, 35, 60)}
		ast := g.gen(ty(rapid.IntRange(0, 5).Draw(t, "ty")), 3, nil)
		st := &style{t: t, tag: "s:", letForms: chance(t, "lf", 30), dotForms: chance(t, "df", 30), spelled: chance(t, "sp", 30)}
		return crashCase{Src: st.program(ast), Mode: mode}, true, []string{"mode:illtyped"}
	case "values":
		// operators applied to data values of any kind
		g := gcfg{oddSugar: true, superimposed: true, quotedNames: true}
		r := newRenderer(t)
		a, b := g.genVal(t, 2), g.genVal(t, 2)
		op := pick(t, "op", "+", "-", "*", "/", "%", "^", "|", "&", "&~", "~~", "<&>", "<->", "++", "+>", "with", "without", "<", "<=", "=", "<:", "(<)", ">>", ">>>", "=>", "where", "orderby", "\\", "//", "->")
		src := "(" + r.deep(g, a, 30) + ") " + op + " (" + r.deep(g, b, 30) + ")"
		switch pick(t, "unary", "", "", "", "count", "single", "neg", "call", "dot", "pow", "relop", "relop") {
		case "relop":
			attr := pick(t, "relattr", "a", "b", "c", "@", "@item", "n")
			src = "(" + r.deep(g, a, 30) + ") " + pick(t, "relform", "unnest "+attr, "nest "+attr, "nest |"+attr+"|n", "nest ~|"+attr+"|n", "rank (r: ."+attr+")", "rank (r: .)", "rank ."+attr, "nest |a, "+attr+"|n unnest n", "order \\x \\y x."+attr+" < y."+attr)
		case "count":
			src = "(" + r.lit(a) + ") count"
		case "single":
			src = "(" + r.lit(a) + ") single"
		case "neg":
			src = "-(" + r.lit(a) + ")"
		case "call":
			src = "(" + r.lit(a) + ")(" + r.lit(b) + ")"
		case "dot":
			src = "(" + r.lit(a) + ").a"
		case "pow":
			src = "^(" + r.lit(a) + ")"
		}
		return crashCase{Src: src, Mode: mode}, true, []string{"mode:values", "op:" + op}
	case "stdlib":
		fns := safeStdFunctions()
		fn := fns[rapid.IntRange(0, len(fns)-1).Draw(t, "fn")]
		g := gcfg{oddSugar: true, superimposed: false, quotedNames: true}
		r := newRenderer(t)
		nargs := rapid.IntRange(1, 3).Draw(t, "nargs")
		src := fn
		for i := 0; i < nargs; i++ {
			var arg string
			switch rapid.IntRange(0, 5).Draw(t, "argkind") {
			case 0:
				arg = fmt.Sprint(rapid.IntRange(-2, 5).Draw(t, "n"))
			case 1:
				arg = pick(t, "s", `""`, `"a"`, `"ab,c\n"`, `"{\"a\": [1, null]}"`, `"a: 1"`, `"(", "[a-z]+"`, `"%d"`)
			case 2:
				arg = pick(t, "c", `[]`, `["a", "b"]`, `[1, 2]`, `{}`, `{"a": 1}`, `(a: 1)`, `<<1, 2>>`, `true`, `\x x`, `[[1], [2]]`, `{1, 2}`)
			default:
				arg = r.lit(g.genVal(t, 2))
			}
			src += "(" + arg + ")"
		}
		return crashCase{Src: src, Mode: mode}, true, []string{"mode:stdlib", "fn:" + strings.SplitN(strings.TrimPrefix(fn, "//"), ".", 2)[0]}
	default:
		// byte-level: a program text or hostile constant with random edits
		base := pick(t, "base", hostile...)
		if chance(t, "fromgen", 40) {
			g := &pgen{t: t, illTyped: 20}
			st := &style{t: t, tag: "s:", noise: true}
			base = st.program(g.gen(ty(rapid.IntRange(0, 5).Draw(t, "ty")), 2, nil))
		}
		bs := []byte(base)
		for n := rapid.IntRange(0, 3).Draw(t, "edits"); n > 0 && len(bs) > 0; n-- {
			i := rapid.IntRange(0, len(bs)-1).Draw(t, "at")
			switch rapid.IntRange(0, 3).Draw(t, "edit") {
			case 0:
				bs = append(bs[:i], bs[i+1:]...)
			case 1:
				bs[i] = pick(t, "ch", byte('('), ')', '{', '}', '[', ']', '"', '\'', '\\', '.', ',', ':', ';', '|', '<', '>', '-', '$', '%', '@', '&', '?', '0', 'x', ' ', '\n', 0, 0xff)
			case 2:
				bs = append(bs[:i], append([]byte{pick(t, "ins", byte('('), '{', '[', '"', '\\', '.', ':', '|', '-', '>', '\n')}, bs[i:]...)...)
			default:
				j := rapid.IntRange(0, len(bs)-1).Draw(t, "dup")
				if i > j {
					i, j = j, i
				}
				bs = append(bs[:j], append(append([]byte{}, bs[i:j]...), bs[j:]...)...)
			}
		}
		return crashCase{Src: string(bs), Mode: mode}, true, []string{"mode:bytes"}
	}
}

var (
	stdFnOnce sync.Once
	stdFns    []string
)

// safeStdFunctions walks the safe standard library tuple and returns the source
// paths of its functions, except those with effects outside the process.
func safeStdFunctions() []string {
	stdFnOnce.Do(func() {
		// effects outside the process, and the recursion combinators (the property is about non-recursive programs)
		skip := map[string]bool{"deprecated": true, "os": true, "log": true, "arrai": true, "net": true, "fn": true, "std": true}
		var walk func(prefix string, v rel.Value)
		walk = func(prefix string, v rel.Value) {
			if t, ok := v.(rel.Tuple); ok {
				for e := t.Enumerator(); e.MoveNext(); {
					name, val := e.Current()
					if prefix == "//" && skip[name] {
						continue
					}
					sep := "."
					if prefix == "//" {
						sep = ""
					}
					walk(prefix+sep+name, val)
				}
				return
			}
			stdFns = append(stdFns, prefix)
		}
		walk("//", syntax.SafeStdScopeTuple())
		sort.Strings(stdFns)
	})
	return stdFns
}

var (
	digitsRE   = regexp.MustCompile(`[0-9]+`)
	quotedRE   = regexp.MustCompile(`"[^"]*"|'[^']*'`)
	leakedHang int32
)

// panicSig is the signature of a panic: the innermost repository function and
// the message with literals removed.
func panicSig(o obs.Outcome) string {
	site := o.Site
	// closures are numbered by position in the file: keep the enclosing function
	site = regexp.MustCompile(`\.func[0-9]+(\.[0-9]+)*$`).ReplaceAllString(site, "")
	return "panic@" + site
}

func checkCrashCase(c crashCase) (*Failure, string) {
	fail := func(sig, detail string) (*Failure, string) {
		if known("C10", sig) {
			return nil, "known"
		}
		return mkFailure("C10", "C10/crash", sig, "program: "+c.Src+"\n"+detail, c), "violation"
	}
	ch := make(chan obs.Outcome2, 1)
	go func() { ch <- obs.EvalNoRender(obs.Ctx(), c.Src) }()
	var out obs.Outcome2
	select {
	case out = <-ch:
	case <-time.After(hangBound):
		atomic.AddInt32(&leakedHang, 1)
		stacks := obs.AllStacks()
		return fail("hang@"+hangSite(stacks), "compiling/evaluating did not finish within "+hangBound.String()+"\n"+firstRepoFrames(stacks))
	}
	switch out.Kind {
	case "value":
		// a value must also be printable by the host
		done := make(chan string, 1)
		go func() { done <- obs.Repr(out.Value) }()
		select {
		case text := <-done:
			if strings.Contains(text, "PANIC=") {
				return fail("panic-in-format", "the result cannot be printed: "+firstLine(text))
			}
		case <-time.After(hangBound):
			atomic.AddInt32(&leakedHang, 1)
			return fail("hang@format", "printing the result did not finish")
		}
		return nil, "value"
	case "panic":
		return fail(panicSig(out.Outcome), "observed: "+out.Outcome.String())
	}
	if out.ErrObj != nil {
		// the error must be reportable. Rendering a wbnf parse error can take
		// exponential time and memory (known finding parse-error-render-blowup,
		// witnessed separately); a stuck renderer cannot be stopped and would eat
		// the machine's memory, so parse errors are not rendered in the search.
		if isParseError(out.ErrObj) && !c.Render {
			return nil, "parse-error-not-rendered"
		}
		if atomic.LoadInt32(&leakedHang) > 12 {
			return nil, "error-not-rendered"
		}
		_, ok, stacks := obs.RenderErr(out.ErrObj, 4*time.Second)
		if !ok {
			atomic.AddInt32(&leakedHang, 1)
			return fail("hang@"+hangSite(stacks), "the evaluation returned an error whose message could not be rendered within 4s\n"+firstRepoFrames(stacks))
		}
	}
	return nil, "error"
}

func firstLine(s string) string {
	if i := strings.IndexByte(s, '\n'); i >= 0 {
		s = s[:i]
	}
	if len(s) > 200 {
		s = s[:200]
	}
	return s
}

var frameLineRE = regexp.MustCompile(`(?m)^(github\.com/arr-ai/[^\s(]+)`)

// hangSite names where a stuck goroutine is: the outermost interesting frame.
func hangSite(stacks string) string {
	switch {
	case strings.Contains(stacks, "wbnf/parser.ParseError.Error"):
		return "wbnf.ParseError.Error"
	}
	for _, g := range strings.Split(stacks, "\n\n") {
		if !strings.Contains(g, "[running]") && !strings.Contains(g, "[runnable]") {
			continue
		}
		if m := frameLineRE.FindStringSubmatch(g); m != nil && !strings.Contains(m[1], "verif") {
			return strings.TrimPrefix(m[1], "github.com/arr-ai/")
		}
	}
	return "?"
}

func firstRepoFrames(stacks string) string {
	var out []string
	for _, m := range frameLineRE.FindAllStringSubmatch(stacks, 12) {
		out = append(out, "  "+m[1])
	}
	return strings.Join(out, "\n")
}

func init() {
	register("C10/crash", func(raw json.RawMessage) *Failure {
		var c crashCase
		if err := json.Unmarshal(raw, &c); err != nil {
			return &Failure{Property: "C10", Check: "C10/crash", Detail: "bad case: " + err.Error()}
		}
		f, _ := checkCrashCase(c)
		return f
	})
}

func TestC10(t *testing.T) {
	rapid.Check(t, func(t *rapid.T) {
		c, nt, classes := genC10(t)
		f, outcome := checkCrashCase(c)
		stats.Case(nt, c.Src, append(classes, "outcome:"+outcome)...)
		report(t, f)
	})
}

func isParseError(err error) bool {
	for e := err; e != nil; e = errors.Unwrap(e) {
		tn := fmt.Sprintf("%T", e)
		if strings.Contains(tn, "parser.ParseError") || strings.Contains(tn, "parser.FatalError") {
			return true
		}
	}
	return false
}
