package checks

import (
	"fmt"
	"regexp"
	"strings"

	"pgregory.net/rapid"
)

// Typed-by-construction generator of closed programs of the core expression
// language, with a printer that knows the precedence stack of
// syntax/arrai.wbnf (DESIGN.md appendix B) and can render one AST in several
// documented-equivalent ways (C08), and a knob for ill-typed operands (C10).

type ty int

const (
	tyN   ty = iota // number
	tyB             // boolean (a set)
	tyS             // set of numbers
	tyA             // array of numbers
	tyT             // tuple (a: N, b: N)
	tyStr           // string
)

// precedence levels, loosest first (appendix B)
const (
	lvArrow   = 0
	lvWith    = 3
	lvOr      = 4
	lvAnd     = 5
	lvMerge   = 6
	lvCompare = 7
	lvAdd     = 9
	lvAnd2    = 10 // & &~
	lvMul     = 11
	lvUnary   = 13
	lvPostfix = 14
	lvTail    = 15
	lvAtom    = 16
	// let, lambda: extend maximally to the right; only unparenthesised where a whole expr is expected
	lvOpen = -1
)

type node struct {
	kind string // num str bool setlit arrlit tuplit var bin cmp unary postfix dot call safecall arrow bindarrow let lambda-app cond err
	op   string
	kids []*node
	name string   // var / let / binder name, attribute name
	ops  []string // cmp chain operators
	ty   ty
	// for cond: kids = [c1, v1, c2, v2, ..., default]; sel = index of the selected value kid (known by construction) or -1
	sel int
	// arrow: implicit-dot body (kids[1]) may be printed as ., \. body or \x body
	num float64
	str string
	// truth of a closed boolean built by constBool: 1 true, 2 false, 0 unknown
	truth int
}

type pgen struct {
	t       *rapid.T
	nextVar int
	// illTyped: percent chance of replacing an operand by one of another type
	illTyped int
	ops      int
}

type binding struct {
	name string
	ty   ty
}

func (g *pgen) fresh() string {
	g.nextVar++
	return fmt.Sprintf("v%d", g.nextVar)
}

func numNode(f float64) *node { return &node{kind: "num", num: f, ty: tyN} }

func (g *pgen) gen(want ty, depth int, env []binding) *node {
	if g.illTyped > 0 && depth < 3 && chance(g.t, "illtyped", g.illTyped) {
		other := ty(rapid.IntRange(0, 5).Draw(g.t, "otherty"))
		n := g.gen1(other, depth, env)
		return n
	}
	return g.gen1(want, depth, env)
}

func (g *pgen) varsOf(want ty, env []binding) []string {
	var out []string
	for _, b := range env {
		if b.ty == want {
			out = append(out, b.name)
		}
	}
	return out
}

func (g *pgen) leaf(want ty, env []binding) *node {
	if vs := g.varsOf(want, env); len(vs) > 0 && chance(g.t, "usevar", 55) {
		return &node{kind: "var", name: pick(g.t, "var", vs...), ty: want}
	}
	switch want {
	case tyN:
		return numNode(float64(rapid.IntRange(0, 4).Draw(g.t, "n")))
	case tyB:
		return &node{kind: "bool", op: pick(g.t, "b", "true", "false"), ty: tyB}
	case tyS:
		n := rapid.IntRange(0, 3).Draw(g.t, "len")
		s := &node{kind: "setlit", ty: tyS}
		for i := 0; i < n; i++ {
			s.kids = append(s.kids, numNode(float64(rapid.IntRange(0, 4).Draw(g.t, "n"))))
		}
		return s
	case tyA:
		n := rapid.IntRange(0, 3).Draw(g.t, "len")
		s := &node{kind: "arrlit", ty: tyA}
		for i := 0; i < n; i++ {
			s.kids = append(s.kids, numNode(float64(rapid.IntRange(0, 4).Draw(g.t, "n"))))
		}
		return s
	case tyT:
		return &node{kind: "tuplit", ty: tyT, kids: []*node{numNode(float64(rapid.IntRange(0, 4).Draw(g.t, "n"))), numNode(float64(rapid.IntRange(0, 4).Draw(g.t, "n")))}}
	default:
		return &node{kind: "str", str: pick(g.t, "s", "", "a", "ab", "b c"), ty: tyStr}
	}
}

func (g *pgen) bin(op string, level int, t ty, l, r *node) *node {
	g.ops++
	return &node{kind: "bin", op: op, kids: []*node{l, r}, ty: t, sel: level}
}

func (g *pgen) gen1(want ty, depth int, env []binding) *node {
	if depth <= 0 {
		return g.leaf(want, env)
	}
	d := depth - 1
	// constructs available for every type
	switch rapid.IntRange(0, 11).Draw(g.t, "generic") {
	case 0: // let
		bt := ty(rapid.IntRange(0, 5).Draw(g.t, "letty"))
		name := g.fresh()
		g.ops++
		return &node{kind: "let", name: name, ty: want, kids: []*node{g.gen(bt, d, env), g.gen(want, d, append(append([]binding{}, env...), binding{name, bt}))}}
	case 1: // cond with conditions whose truth is known by construction
		g.ops++
		n := &node{kind: "cond", ty: want, sel: -1}
		arms := rapid.IntRange(1, 2).Draw(g.t, "arms")
		for i := 0; i < arms; i++ {
			c, truth := g.constBool(2)
			n.kids = append(n.kids, c, g.gen(want, d, env))
			if truth && n.sel < 0 {
				n.sel = len(n.kids) - 1
			}
		}
		n.kids = append(n.kids, g.gen(want, d, env))
		if n.sel < 0 {
			n.sel = len(n.kids) - 1
		}
		return n
	case 2:
		return g.leaf(want, env)
	}
	switch want {
	case tyN:
		switch rapid.IntRange(0, 8).Draw(g.t, "nform") {
		case 0, 1:
			return g.bin(pick(g.t, "op", "+", "-"), lvAdd, tyN, g.gen(tyN, d, env), g.gen(tyN, d, env))
		case 2:
			return g.bin("*", lvMul, tyN, g.gen(tyN, d, env), g.gen(tyN, d, env))
		case 3:
			g.ops++
			return &node{kind: "postfix", op: "count", ty: tyN, kids: []*node{g.gen(pick(g.t, "cty", tyS, tyA), d, env)}}
		case 4:
			g.ops++
			return &node{kind: "dot", name: pick(g.t, "attr", "a", "b"), ty: tyN, kids: []*node{g.gen(tyT, d, env)}}
		case 5:
			g.ops++
			return &node{kind: "safecall", ty: tyN, kids: []*node{g.gen(tyA, d, env), g.gen(tyN, d, env), numNode(float64(rapid.IntRange(5, 9).Draw(g.t, "fb")))}}
		case 6:
			g.ops++
			return &node{kind: "unary", op: "-", ty: tyN, kids: []*node{g.gen(tyN, d, env)}}
		case 7:
			// e -> \x body
			name := g.fresh()
			g.ops++
			return &node{kind: "let", op: "num", name: name, ty: tyN, kids: []*node{g.gen(tyN, d, env), g.gen(tyN, d, append(append([]binding{}, env...), binding{name, tyN}))}}
		default:
			g.ops++
			return &node{kind: "arrow", op: "sum", ty: tyN, kids: []*node{g.gen(tyS, d, env), g.dotBody(tyN, d, env, false)}}
		}
	case tyB:
		switch rapid.IntRange(0, 6).Draw(g.t, "bform") {
		case 0, 1:
			g.ops++
			n := &node{kind: "cmp", ty: tyB, kids: []*node{g.gen(tyN, d, env), g.gen(tyN, d, env)}, ops: []string{pick(g.t, "cmp", "<", "<=", ">", ">=", "=", "!=")}}
			if chance(g.t, "chain", 20) {
				n.kids = append(n.kids, g.gen(tyN, d, env))
				n.ops = append(n.ops, pick(g.t, "cmp", "<", "<=", "="))
			}
			return n
		case 2:
			return g.bin("&&", lvAnd, tyB, g.gen(tyB, d, env), g.gen(tyB, d, env))
		case 3:
			return g.bin("||", lvOr, tyB, g.gen(tyB, d, env), g.gen(tyB, d, env))
		case 4:
			g.ops++
			return &node{kind: "unary", op: "!", ty: tyB, kids: []*node{g.gen(tyB, d, env)}}
		case 5:
			g.ops++
			return &node{kind: "cmp", ty: tyB, kids: []*node{g.gen(tyN, d, env), g.gen(tyS, d, env)}, ops: []string{pick(g.t, "mem", "<:", "!<:")}}
		default:
			g.ops++
			return &node{kind: "cmp", ty: tyB, kids: []*node{g.gen(tyS, d, env), g.gen(tyS, d, env)}, ops: []string{pick(g.t, "scmp", "(<=)", "(<)", "=", "!=")}}
		}
	case tyS:
		switch rapid.IntRange(0, 6).Draw(g.t, "sform") {
		case 0:
			return g.bin("|", lvAdd, tyS, g.gen(tyS, d, env), g.gen(tyS, d, env))
		case 1:
			return g.bin(pick(g.t, "op", "&", "&~"), lvAnd2, tyS, g.gen(tyS, d, env), g.gen(tyS, d, env))
		case 2:
			return g.bin(pick(g.t, "op", "with", "without"), lvWith, tyS, g.gen(tyS, d, env), g.gen(tyN, d, env))
		case 3:
			g.ops++
			return &node{kind: "arrow", op: "where", ty: tyS, kids: []*node{g.gen(tyS, d, env), g.dotBody(tyB, d, env, false)}}
		case 4:
			g.ops++
			return &node{kind: "arrow", op: "=>", ty: tyS, kids: []*node{g.gen(tyS, d, env), g.dotBody(tyN, d, env, false)}}
		case 5:
			s := &node{kind: "setlit", ty: tyS}
			for i := rapid.IntRange(1, 3).Draw(g.t, "len"); i > 0; i-- {
				s.kids = append(s.kids, g.gen(tyN, d, env))
			}
			g.ops++
			return s
		default:
			return g.leaf(tyS, env)
		}
	case tyA:
		switch rapid.IntRange(0, 4).Draw(g.t, "aform") {
		case 0:
			return g.bin("++", lvAdd, tyA, g.gen(tyA, d, env), g.gen(tyA, d, env))
		case 1:
			g.ops++
			return &node{kind: "arrow", op: ">>", ty: tyA, kids: []*node{g.gen(tyA, d, env), g.dotBody(tyN, d, env, false)}}
		case 2:
			g.ops++
			return &node{kind: "arrow", op: "orderby", ty: tyA, kids: []*node{g.gen(tyS, d, env), g.dotBody(tyN, d, env, true)}}
		case 3:
			s := &node{kind: "arrlit", ty: tyA}
			for i := rapid.IntRange(1, 3).Draw(g.t, "len"); i > 0; i-- {
				s.kids = append(s.kids, g.gen(tyN, d, env))
			}
			g.ops++
			return s
		default:
			return g.leaf(tyA, env)
		}
	case tyT:
		switch rapid.IntRange(0, 2).Draw(g.t, "tform") {
		case 0:
			return g.bin("+>", lvMerge, tyT, g.gen(tyT, d, env), g.gen(tyT, d, env))
		case 1:
			g.ops++
			return &node{kind: "tuplit", ty: tyT, kids: []*node{g.gen(tyN, d, env), g.gen(tyN, d, env)}}
		default:
			return g.leaf(tyT, env)
		}
	default:
		if chance(g.t, "strcat", 50) {
			return g.bin("++", lvAdd, tyStr, g.gen(tyStr, d, env), g.gen(tyStr, d, env))
		}
		return g.leaf(tyStr, env)
	}
}

// dotBody generates the right-hand side of an arrow operator: an expression of
// the wanted type over the implicit binder "." (a number).
func (g *pgen) dotBody(want ty, depth int, env []binding, injective bool) *node {
	inner := append(append([]binding{}, env...), binding{".", tyN})
	// make sure the binder is used most of the time
	switch want {
	case tyB:
		return &node{kind: "cmp", ty: tyB, kids: []*node{{kind: "var", name: ".", ty: tyN}, g.gen1(tyN, min(depth, 1), inner)}, ops: []string{pick(g.t, "cmp", "<", ">", "!=", "<=")}}
	default:
		ops := []string{"+", "-", "*"}
		if injective {
			ops = []string{"+", "-"}
		}
		op := pick(g.t, "op", ops...)
		return g.bin(op, map[string]int{"+": lvAdd, "-": lvAdd, "*": lvMul}[op], tyN,
			&node{kind: "var", name: ".", ty: tyN}, g.gen1(tyN, min(depth, 1), inner))
	}
}

// constBool builds a closed boolean expression over number literals whose
// truth value is computed here, independently of the evaluator.
func (g *pgen) constBool(depth int) (*node, bool) {
	n, b := g.constBool1(depth)
	n.truth = map[bool]int{true: 1, false: 2}[b]
	return n, b
}

func (g *pgen) constBool1(depth int) (*node, bool) {
	switch rapid.IntRange(0, 5).Draw(g.t, "cb") {
	case 0:
		b := chance(g.t, "lit", 50)
		return &node{kind: "bool", op: map[bool]string{true: "true", false: "false"}[b], ty: tyB}, b
	case 1:
		if depth > 0 {
			l, lb := g.constBool(depth - 1)
			r, rb := g.constBool(depth - 1)
			return g.bin("&&", lvAnd, tyB, l, r), lb && rb
		}
	case 2:
		if depth > 0 {
			l, lb := g.constBool(depth - 1)
			r, rb := g.constBool(depth - 1)
			return g.bin("||", lvOr, tyB, l, r), lb || rb
		}
	case 3:
		if depth > 0 {
			l, lb := g.constBool(depth - 1)
			g.ops++
			return &node{kind: "unary", op: "!", ty: tyB, kids: []*node{l}}, !lb
		}
	}
	a, b := rapid.IntRange(0, 3).Draw(g.t, "ca"), rapid.IntRange(0, 3).Draw(g.t, "cb2")
	op := pick(g.t, "cop", "<", "<=", "=", "!=", ">")
	truth := map[string]bool{"<": a < b, "<=": a <= b, "=": a == b, "!=": a != b, ">": a > b}[op]
	g.ops++
	return &node{kind: "cmp", ty: tyB, kids: []*node{numNode(float64(a)), numNode(float64(b))}, ops: []string{op}}, truth
}

// ---------------------------------------------------------------------------
// printing

// style is the set of choices among documented-equivalent renderings; each
// choice is drawn per node from the style's own stream of decisions.
type style struct {
	t         *rapid.T
	fullParen bool
	noise     bool // comments, whitespace, redundant parentheses
	letForms  bool // let / -> \x / (\x body)(e)
	dotForms  bool // . / \. body / \x body
	spelled   bool // sugar literals spelled out as sets of tuples
	tag       string
	fresh     int
}

func (s *style) choose(label string, n int) int {
	return rapid.IntRange(0, n-1).Draw(s.t, s.tag+label)
}

func (s *style) level(n *node) int {
	switch n.kind {
	case "num":
		if n.num < 0 {
			return lvUnary
		}
		return lvAtom
	case "str", "bool", "setlit", "arrlit", "tuplit", "var", "cond", "err":
		return lvAtom
	case "bin":
		return n.sel
	case "cmp":
		return lvCompare
	case "unary":
		return lvUnary
	case "postfix":
		return lvPostfix
	case "dot", "call":
		return lvTail
	case "safecall":
		// x(k)?:f takes further tails into its fallback (x(k)?:8.b is even lexed as the
		// number "8." followed by b): as the base of another tail it is parenthesised
		return lvPostfix
	case "arrow":
		return lvArrow
	case "let":
		return lvOpen
	}
	return lvAtom
}

// operand prints n as an operand that must bind at least as tightly as need.
func (s *style) operand(n *node, need int) string {
	text, lv := s.print(n)
	if s.fullParen && lv < lvAtom || lv < need {
		return "(" + text + ")"
	}
	if s.noise && s.choose("redundant", 6) == 0 {
		return "(" + text + ")"
	}
	return text
}

func (s *style) sp() string {
	if !s.noise {
		return " "
	}
	switch s.choose("sp", 6) {
	case 0:
		return "  "
	case 1:
		return " # note\n "
	case 2:
		return "\n\t"
	}
	return " "
}

// top prints n where a whole expression is expected.
func (s *style) top(n *node) string {
	text, lv := s.print(n)
	if s.fullParen && lv != lvAtom || lv == lvOpen {
		return "(" + text + ")"
	}
	return text
}

// program prints the whole program (the only place besides a let body where a
// right-open form needs no parentheses).
func (s *style) program(n *node) string {
	text, _ := s.print(n)
	return guardDots(text)
}

// A bare "." followed by blanks and a word operator would be read as the
// attribute access ".where", ".count", ... (a property of the grammar, not of
// meaning), so such dots are parenthesised in every rendering.
var dotWordRE = regexp.MustCompile(`(^|[^\w.)\]}"'])\.(\s+)(with|without|where|orderby|order|sum|count|single|nest|rank|max|min|mean|median|if|else)\b`)

func guardDots(text string) string {
	for {
		next := dotWordRE.ReplaceAllString(text, "$1(.)$2$3")
		if next == text {
			return text
		}
		text = next
	}
}

func (s *style) print(n *node) (string, int) {
	lv := s.level(n)
	switch n.kind {
	case "num":
		return fmt.Sprint(n.num), lv
	case "str":
		if s.spelled && s.choose("strform", 2) == 0 {
			var parts []string
			for i, r := range n.str {
				parts = append(parts, fmt.Sprintf("(@: %d, @char: %d)", i, r))
			}
			return "{" + strings.Join(parts, ", ") + "}", lvAtom
		}
		return `"` + n.str + `"`, lv
	case "bool":
		if s.spelled && s.choose("boolform", 2) == 0 {
			return map[string]string{"true": "{()}", "false": "{}"}[n.op], lvAtom
		}
		return n.op, lv
	case "var":
		return n.name, lv
	case "err":
		return n.op, lvAtom
	case "setlit", "arrlit":
		parts := make([]string, len(n.kids))
		for i, k := range n.kids {
			parts[i] = s.top(k)
		}
		if n.kind == "arrlit" && s.spelled && s.choose("arrform", 2) == 0 {
			for i := range parts {
				parts[i] = fmt.Sprintf("(@: %d, @item: %s)", i, parts[i])
			}
			return "{" + strings.Join(parts, ","+s.sp()) + "}", lvAtom
		}
		if n.kind == "setlit" {
			return "{" + strings.Join(parts, ","+s.sp()) + "}", lv
		}
		return "[" + strings.Join(parts, ","+s.sp()) + "]", lv
	case "tuplit":
		if s.spelled && s.choose("tupform", 2) == 0 {
			return "(a: " + s.top(n.kids[0]) + ") +> (b: " + s.top(n.kids[1]) + ")", lvMerge
		}
		return "(a: " + s.top(n.kids[0]) + "," + s.sp() + "b: " + s.top(n.kids[1]) + ")", lv
	case "bin":
		return s.operand(n.kids[0], lv) + s.sp() + n.op + s.sp() + s.operand(n.kids[1], lv+1), lv
	case "cmp":
		out := s.operand(n.kids[0], lvCompare+1)
		for i, op := range n.ops {
			out += s.sp() + op + s.sp() + s.operand(n.kids[i+1], lvCompare+1)
		}
		return out, lv
	case "unary":
		return n.op + s.operand(n.kids[0], lvPostfix), lv
	case "postfix":
		return s.operand(n.kids[0], lvTail) + " " + n.op, lv
	case "dot":
		lhs := s.operand(n.kids[0], lvTail)
		if n.kids[0].kind == "num" || n.kids[0].kind == "var" && n.kids[0].name == "." {
			// 2.b would be lexed as the number "2." and ..b is no expression
			lhs = "(" + strings.TrimSuffix(strings.TrimPrefix(lhs, "("), ")") + ")"
		}
		return lhs + "." + n.name, lv
	case "safecall":
		return s.operand(n.kids[0], lvTail) + "(" + s.top(n.kids[1]) + ")?:" + s.operand(n.kids[2], lvAtom), lv
	case "arrow":
		lhs := s.operand(n.kids[0], lvArrow+1)
		if n.kids[0].kind == "arrow" && !s.fullParen && s.choose("chain", 2) == 0 {
			// arrows chain to the left without parentheses
			if text, klv := s.print(n.kids[0]); klv == lvArrow {
				lhs = text
			}
		}
		body := n.kids[1]
		form := 0
		if s.dotForms {
			form = s.choose("dotform", 3)
		}
		switch form {
		case 0:
			return lhs + s.sp() + n.op + s.sp() + s.operand(body, lvArrow+1), lv
		case 1:
			// a lambda body extends to the right as far as it can
			return lhs + s.sp() + n.op + s.sp() + `\. ` + s.operand(body, lvArrow+1), lvOpen
		default:
			s.fresh++
			x := fmt.Sprintf("w%d", s.fresh)
			return lhs + s.sp() + n.op + s.sp() + `\` + x + " " + s.operand(renameDot(body, x), lvArrow+1), lvOpen
		}
	case "let":
		form := 0
		if s.letForms {
			form = s.choose("letform", 3)
		}
		switch form {
		case 0:
			return "let " + n.name + " =" + s.sp() + s.top(n.kids[0]) + ";" + s.sp() + s.program(n.kids[1]), lvOpen
		case 1:
			return s.operand(n.kids[0], lvArrow+1) + " -> \\" + n.name + " " + s.operand(n.kids[1], lvArrow+1), lvArrow
		default:
			return "(\\" + n.name + " " + s.top(n.kids[1]) + ")(" + s.top(n.kids[0]) + ")", lvTail
		}
	case "cond":
		var parts []string
		for i := 0; i+1 < len(n.kids); i += 2 {
			parts = append(parts, s.top(n.kids[i])+": "+s.top(n.kids[i+1]))
		}
		parts = append(parts, "_: "+s.top(n.kids[len(n.kids)-1]))
		return "cond {" + strings.Join(parts, ","+s.sp()) + "}", lv
	}
	panic("print: unknown node kind " + n.kind)
}

// renameDot returns a copy of body in which the implicit binder "." (not
// rebound by an inner arrow) is called name.
func renameDot(n *node, name string) *node {
	c := *n
	if n.kind == "var" && n.name == "." {
		c.name = name
		return &c
	}
	c.kids = make([]*node, len(n.kids))
	for i, k := range n.kids {
		if n.kind == "arrow" && i == 1 {
			// the inner arrow rebinds "."
			c.kids[i] = k
			continue
		}
		c.kids[i] = renameDot(k, name)
	}
	return &c
}

// substitute replaces free occurrences of variable name by a copy of val
// (binder names are unique in generated programs, so no capture is possible).
func substitute(n *node, name string, val *node) *node {
	if n.kind == "var" && n.name == name {
		return val
	}
	c := *n
	c.kids = make([]*node, len(n.kids))
	for i, k := range n.kids {
		c.kids[i] = substitute(k, name, val)
	}
	return &c
}

// inlineLets replaces some let-bound names by their (parenthesised by the
// printer as needed) values. The bound expression must not mention ".".
func inlineLets(t *rapid.T, n *node, percent int) *node {
	c := *n
	c.kids = make([]*node, len(n.kids))
	for i, k := range n.kids {
		c.kids[i] = inlineLets(t, k, percent)
	}
	if c.kind == "let" && !mentionsDot(c.kids[0]) && chance(t, "inline", percent) {
		return substitute(c.kids[1], c.name, c.kids[0])
	}
	return &c
}

func mentionsDot(n *node) bool {
	if n.kind == "var" && n.name == "." {
		return true
	}
	for i, k := range n.kids {
		if n.kind == "arrow" && i == 1 {
			continue
		}
		if mentionsDot(k) {
			return true
		}
	}
	return false
}

var errExprs = []string{"(a: 1).b", "1(2)", "{1, 2}(3)", "[1](5)"}

// poisonUnselected replaces branches that evaluation must not touch by
// expressions that fail: unselected cond arms (conditions are closed and their
// truth is known by construction).
func poisonUnselected(t *rapid.T, n *node) (*node, int) {
	c := *n
	count := 0
	c.kids = make([]*node, len(n.kids))
	for i, k := range n.kids {
		var m int
		c.kids[i], m = poisonUnselected(t, k)
		count += m
	}
	poison := func() *node {
		count++
		return &node{kind: "err", op: pick(t, "errexpr", errExprs...)}
	}
	switch {
	case c.kind == "cond":
		last := len(c.kids) - 1
		for i := 1; i < last; i += 2 { // values of unselected arms
			if i != c.sel && chance(t, "poison", 70) {
				c.kids[i] = poison()
			}
		}
		for i := c.sel + 1; i < last; i += 2 { // conditions after the selected arm
			if chance(t, "poisoncond", 40) {
				c.kids[i] = poison()
			}
		}
		if c.sel != last && chance(t, "poisondefault", 70) {
			c.kids[last] = poison()
		}
	case c.kind == "bin" && c.op == "&&" && n.kids[0].truth == 2, c.kind == "bin" && c.op == "||" && n.kids[0].truth == 1:
		// the right operand of a decided && / || is not evaluated
		if chance(t, "poisonrhs", 70) {
			c.kids[0] = n.kids[0]
			c.kids[1] = poison()
		}
	}
	return &c, count
}
