package checks

import (
	"bufio"
	"bytes"
	"encoding/json"
	"fmt"
	"os"
	"os/exec"
	"path/filepath"
	"strings"
	"testing"

	"pgregory.net/rapid"
)

// C07 — evaluation is deterministic across processes and hash seeds.
//
// Each case is a batch of programs whose output depends on collections with
// many members. The batch is evaluated in several fresh processes (each draws
// its own hash seeds at start-up, and evaluates every program twice) and the
// printed results must be byte-identical.

type detCase struct {
	Programs []string `json:"programs"`
}

func genBigSet(t *rapid.T) string {
	s, _ := genBigSetKind(t)
	return s
}

func genBigSetKind(t *rapid.T) (string, string) {
	n := rapid.IntRange(9, 40).Draw(t, "n")
	kind := pick(t, "elems", "nums", "nums", "nums", "strs", "mixed", "tuples", "arrays")
	seen := map[string]bool{}
	var parts []string
	for len(parts) < n {
		var e string
		switch kind {
		case "nums":
			e = fmt.Sprint(rapid.IntRange(0, 99).Draw(t, "e"))
		case "strs":
			e = fmt.Sprintf("%q", fmt.Sprintf("s%d", rapid.IntRange(0, 99).Draw(t, "e")))
		case "tuples":
			e = fmt.Sprintf("(a: %d, b: %d)", rapid.IntRange(0, 9).Draw(t, "a"), rapid.IntRange(0, 9).Draw(t, "b"))
		case "arrays":
			// same length and offset, some with a hole in the middle
			mid := fmt.Sprint(rapid.IntRange(0, 3).Draw(t, "mid"))
			if chance(t, "hole", 35) {
				mid = ""
			}
			e = fmt.Sprintf("[%d, %s, %d]", rapid.IntRange(0, 3).Draw(t, "a"), mid, rapid.IntRange(0, 3).Draw(t, "b"))
		default:
			switch rapid.IntRange(0, 4).Draw(t, "mk") {
			case 0:
				e = fmt.Sprint(rapid.IntRange(0, 99).Draw(t, "e"))
			case 1:
				e = fmt.Sprintf("%q", fmt.Sprintf("s%d", rapid.IntRange(0, 30).Draw(t, "e")))
			case 2:
				e = fmt.Sprintf("(a: %d)", rapid.IntRange(0, 30).Draw(t, "e"))
			case 3:
				e = fmt.Sprintf("{%d, %d}", rapid.IntRange(0, 9).Draw(t, "e"), rapid.IntRange(0, 9).Draw(t, "f"))
			default:
				e = fmt.Sprintf("[%d, %d]", rapid.IntRange(0, 9).Draw(t, "e"), rapid.IntRange(0, 9).Draw(t, "f"))
			}
		}
		if !seen[e] {
			seen[e] = true
			parts = append(parts, e)
		}
	}
	return "{" + strings.Join(parts, ", ") + "}", kind
}

// genDetProgram draws a program of the data fragment whose printed output
// passes through enumeration of a large collection.
func genDetProgram(t *rapid.T) (string, string) {
	s, kind := genBigSetKind(t)
	numeric := kind == "nums"
	forms := []string{"repr", "print", "map-wrap", "orderby-self", "tuple-many", "dict-build", "union-split", "count-where", "nested-sets", "array-of"}
	if numeric {
		forms = append(forms, "map-mod", "map-mod", "where", "orderby-neg", "rank", "rank-ties", "nest", "join", "sum", "dict-mod", "seq-arrow", "single-min", "group-call", "set-pattern")
	}
	form := pick(t, "form", forms...)
	k := rapid.IntRange(2, 7).Draw(t, "k")
	switch form {
	case "repr":
		return "//str.repr(" + s + ")", form
	case "print":
		return s, form
	case "map-wrap":
		return s + " => (x: ., y: [.])", form
	case "orderby-self":
		return s + " orderby .", form
	case "tuple-many":
		return fmt.Sprintf("(z: 1, m: %s, a: 2, k: (q: 1, b: 2, w: 3), c: 3, y: 4, b: 5, x: 6, d: 7)", s), form
	case "dict-build":
		return s + " => (@: ., @value: [., 1])", form
	case "union-split":
		return fmt.Sprintf("let s = %s; (s where . < (s orderby .)(%d)) | (s where !(. < (s orderby .)(%d)))", s, k, k), form
	case "count-where":
		return fmt.Sprintf("let s = %s; [s count, (s => {.}) count, s where . = (s orderby .)(0)]", s), form
	case "nested-sets":
		return fmt.Sprintf("let s = %s; {s, s => {.}, {s}}", s), form
	case "array-of":
		return fmt.Sprintf("let s = %s; [s, s orderby ., s => [.]]", s), form
	case "map-mod":
		return fmt.Sprintf("%s => . %% %d", s, k), form
	case "where":
		return fmt.Sprintf("%s where . %% %d != 0", s, k), form
	case "orderby-neg":
		return s + " orderby -.", form
	case "rank":
		return fmt.Sprintf("(%s => (v: .)) rank (r: .v)", s), form
	case "rank-ties":
		return fmt.Sprintf("(%s => (v: ., m: . %% %d)) rank (r: .m, q: -.v)", s, k), form
	case "nest":
		return fmt.Sprintf("(%s => (k: . %% %d, v: .)) nest |v|vs", s, k), form
	case "join":
		return fmt.Sprintf("let s = %s; (s => (a: . %% %d, b: .)) <&> (s => (a: . %% %d, c: -.))", s, k, k+1), form
	case "sum":
		return fmt.Sprintf("let s = %s; [s sum ., s max ., s min ., s mean .]", s), form
	case "dict-mod":
		return fmt.Sprintf("let d = %s => (@: ., @value: . %% %d); [d, d >> . + 1, d(d => .@ orderby . -> .(0))]", s, k), form
	case "seq-arrow":
		return fmt.Sprintf("(%s orderby .) >>> \\i \\x [i, x %% %d]", s, k), form
	case "single-min":
		return fmt.Sprintf("let s = %s; (s where . = (s min .)) single", s), form
	case "group-call":
		return fmt.Sprintf("let g = (%s => (@: . %% %d, @value: .)); g(%d)?:(-1)", s, k*20, k), form
	default: // set-pattern
		return fmt.Sprintf("let s = %s; let m = s min .; let {(m), ...rest} = s; [m, rest count, rest]", s), form
	}
}

func genC07(t *rapid.T) (detCase, bool, []string) {
	n := 24
	var c detCase
	classes := map[string]bool{}
	for i := 0; i < n; i++ {
		if chance(t, "typed", 25) {
			g := &pgen{t: t}
			st := &style{t: t, tag: "s:"}
			c.Programs = append(c.Programs, st.program(g.gen(ty(rapid.IntRange(2, 4).Draw(t, "ty")), 3, nil)))
			classes["form:typed-program"] = true
			continue
		}
		p, form := genDetProgram(t)
		c.Programs = append(c.Programs, p)
		classes["form:"+form] = true
	}
	var cl []string
	for k := range classes {
		cl = append(cl, k)
	}
	return c, true, cl
}

func runBatch(c detCase, procs int) ([][]string, error) {
	bin := os.Getenv("VERIF_BIN_EVALBATCH")
	if bin == "" {
		return nil, fmt.Errorf("VERIF_BIN_EVALBATCH not set (the driver builds harness/cmd/evalbatch)")
	}
	dir := os.Getenv("VERIF_SCRATCH")
	if dir == "" {
		dir = os.TempDir()
	}
	f, err := os.CreateTemp(dir, "batch-*.jsonl")
	if err != nil {
		return nil, err
	}
	defer os.Remove(f.Name())
	w := bufio.NewWriter(f)
	for _, p := range c.Programs {
		enc, _ := json.Marshal(p)
		w.Write(enc)
		w.WriteByte('\n')
	}
	w.Flush()
	f.Close()
	outs := make([][]string, procs)
	errs := make(chan error, procs)
	for i := 0; i < procs; i++ {
		go func(i int) {
			cmd := exec.Command(bin, f.Name())
			cmd.Dir = filepath.Dir(f.Name())
			var stdout, stderr bytes.Buffer
			cmd.Stdout, cmd.Stderr = &stdout, &stderr
			if err := cmd.Run(); err != nil {
				errs <- fmt.Errorf("evalbatch: %v: %s", err, firstLine(stderr.String()))
				return
			}
			sc := bufio.NewScanner(&stdout)
			sc.Buffer(make([]byte, 1<<20), 1<<26)
			for sc.Scan() {
				var s string
				_ = json.Unmarshal(sc.Bytes(), &s)
				outs[i] = append(outs[i], s)
			}
			errs <- nil
		}(i)
	}
	for i := 0; i < procs; i++ {
		if err := <-errs; err != nil {
			return nil, err
		}
	}
	return outs, nil
}

func checkDetCase(c detCase) *Failure {
	procs := 3
	if thorough() {
		procs = 6
	}
	outs, err := runBatch(c, procs)
	if err != nil {
		// a crashed batch process is an infrastructure problem here (C10 owns crashes)
		panic("C07 infrastructure: " + err.Error())
	}
	for i, p := range c.Programs {
		first := ""
		for pi := range outs {
			if i >= len(outs[pi]) {
				panic("C07 infrastructure: short batch output")
			}
			o := outs[pi][i]
			if strings.HasPrefix(o, "!unstable-within-process") {
				one := detCase{Programs: []string{p}}
				return mkFailure("C07", "C07/processes", "", "program: "+p+"\nevaluating it twice in one process printed two different results:\n"+strings.Replace(o, "\t", "\n  ", -1), one)
			}
			if pi == 0 {
				first = o
			} else if o != first {
				one := detCase{Programs: []string{p}}
				return mkFailure("C07", "C07/processes", "", fmt.Sprintf("program: %s\nprocess 0 printed: %s\nprocess %d printed: %s", p, first, pi, o), one)
			}
		}
	}
	return nil
}

func init() {
	register("C07/processes", func(raw json.RawMessage) *Failure {
		var c detCase
		if err := json.Unmarshal(raw, &c); err != nil {
			return &Failure{Property: "C07", Check: "C07/processes", Detail: "bad case: " + err.Error()}
		}
		// a replay re-runs the program in more processes
		for i := 0; i < 4; i++ {
			if f := checkDetCase(c); f != nil {
				return f
			}
		}
		return nil
	})
}

func TestC07(t *testing.T) {
	rapid.Check(t, func(t *rapid.T) {
		c, _, classes := genC07(t)
		for _, p := range c.Programs {
			stats.Case(true, p)
		}
		for _, cl := range classes {
			stats.Class(cl)
		}
		report(t, checkDetCase(c))
	})
}
