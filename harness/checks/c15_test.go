package checks

import (
	"archive/zip"
	"bytes"
	"context"
	"encoding/json"
	"fmt"
	"os"
	"path"
	"sort"
	"strings"
	"sync"
	"testing"
	"time"

	"github.com/spf13/afero"
	"pgregory.net/rapid"

	"github.com/arr-ai/arrai/pkg/bundle"
	"github.com/arr-ai/arrai/pkg/ctxfs"
	"github.com/arr-ai/arrai/pkg/ctxrootcache"
	"github.com/arr-ai/arrai/rel"
	"github.com/arr-ai/arrai/syntax"

	"verif/obs"
)

// C15 — a bundle evaluates exactly like its sources and reads nothing else.

type bundleCase struct {
	Files map[string]string `json:"files"`
	Main  string            `json:"main"`
	Root  string            `json:"root"`
}

// countFs counts every call that looks at the filesystem.
type countFs struct {
	afero.Fs
	mu    sync.Mutex
	calls []string
}

func (f *countFs) note(op, name string) {
	f.mu.Lock()
	f.calls = append(f.calls, op+" "+name)
	f.mu.Unlock()
}

func (f *countFs) Open(name string) (afero.File, error) { f.note("open", name); return f.Fs.Open(name) }
func (f *countFs) OpenFile(name string, flag int, perm os.FileMode) (afero.File, error) {
	f.note("openfile", name)
	return f.Fs.OpenFile(name, flag, perm)
}
func (f *countFs) Stat(name string) (os.FileInfo, error) { f.note("stat", name); return f.Fs.Stat(name) }

var bundleDirNames = []string{"sub", "deep", "my dir", "dé", "lib"}

func genC15(t *rapid.T) (bundleCase, bool, []string) {
	c := bundleCase{Files: map[string]string{}, Root: "/w/proj"}
	hasMod := chance(t, "gomod", 65)
	if hasMod {
		c.Files["/w/proj/go.mod"] = "module " + pick(t, "modname", "github.com/x/y", "example.com/a/b/c", "m") + "\n"
	}
	// directories
	dirs := []string{"/w/proj"}
	for i := rapid.IntRange(0, 3).Draw(t, "ndirs"); i > 0; i-- {
		parent := dirs[rapid.IntRange(0, len(dirs)-1).Draw(t, "parent")]
		d := parent + "/" + pick(t, "dname", bundleDirNames...)
		dup := false
		for _, x := range dirs {
			dup = dup || x == d
		}
		if !dup {
			dirs = append(dirs, d)
		}
	}
	nested := ""
	if hasMod && len(dirs) > 1 && chance(t, "nestedmod", 20) {
		// a second module nested in the first
		nested = dirs[len(dirs)-1]
		c.Files[nested+"/go.mod"] = "module nested.example/n\n"
	}
	// data files
	dataFiles := []string{}
	for i := rapid.IntRange(0, 2).Draw(t, "ndata"); i > 0; i-- {
		d := dirs[rapid.IntRange(0, len(dirs)-1).Draw(t, "ddir")]
		kind := pick(t, "dkind", "json", "yaml", "txt")
		p := fmt.Sprintf("%s/data%d.%s", d, i, kind)
		switch kind {
		case "json":
			c.Files[p] = pick(t, "json", `{"a": [1, 2, null], "b": "x"}`, `[1, {"k": true}]`, `"s"`)
		case "yaml":
			c.Files[p] = pick(t, "yaml", "a: 1\nb: [x, y]\n", "- 1\n- two\n")
		default:
			c.Files[p] = pick(t, "txt", "plain text\n", "")
		}
		dataFiles = append(dataFiles, p)
	}
	// scripts f0..fn; a script may import scripts with a higher number (a DAG)
	n := rapid.IntRange(1, 5).Draw(t, "nfiles")
	scripts := make([]string, n)
	for i := range scripts {
		d := dirs[rapid.IntRange(0, len(dirs)-1).Draw(t, "fdir")]
		scripts[i] = fmt.Sprintf("%s/f%d.arrai", d, i)
	}
	forms := map[string]bool{}
	moduleOf := func(p string) string {
		if nested != "" && strings.HasPrefix(p, nested+"/") {
			return nested
		}
		return "/w/proj"
	}
	importOf := func(from, to string, explicitDecoder bool) string {
		fromDir := path.Dir(from)
		target := to
		if strings.HasSuffix(target, ".arrai") && chance(t, "dropext", 60) {
			target = strings.TrimSuffix(target, ".arrai")
		}
		var spelled string
		canRel := strings.HasPrefix(to, fromDir+"/")
		canRoot := hasMod && moduleOf(from) == moduleOf(to)
		switch {
		case canRel && (!canRoot || chance(t, "relative", 60)):
			spelled = "./" + strings.TrimPrefix(target, fromDir+"/")
			forms["import:relative"] = true
		case canRoot:
			spelled = strings.TrimPrefix(target, moduleOf(from))
			forms["import:rooted"] = true
		default:
			return "" // not importable from here
		}
		if explicitDecoder {
			forms["import:explicit-decoder"] = true
			dec := map[string]string{".json": "//encoding.json", ".yaml": "//encoding.yaml", ".txt": "//encoding.bytes"}[path.Ext(to)]
			return "//[" + dec + "]{" + spelled + "}"
		}
		return "//{" + spelled + "}"
	}
	for i := n - 1; i >= 0; i-- {
		var fields []string
		fields = append(fields, fmt.Sprintf("name: %q", fmt.Sprintf("f%d", i)))
		var deps []string
		for j := i + 1; j < n; j++ {
			if chance(t, "dep", 55) {
				if imp := importOf(scripts[i], scripts[j], false); imp != "" {
					deps = append(deps, imp)
				}
			}
		}
		if len(deps) > 0 {
			fields = append(fields, "deps: ["+strings.Join(deps, ", ")+"]")
		}
		for _, df := range dataFiles {
			if chance(t, "usedata", 35) {
				if imp := importOf(scripts[i], df, path.Ext(df) != ".txt" && chance(t, "explicit", 40)); imp != "" {
					fields = append(fields, fmt.Sprintf("d%d: %s", len(fields), imp))
					forms["import:data"+path.Ext(df)] = true
				}
			}
		}
		if chance(t, "missing", 4) {
			fields = append(fields, "gone: //{./no_such_file}")
			forms["import:missing"] = true
		}
		c.Files[scripts[i]] = "(" + strings.Join(fields, ", ") + ")"
	}
	c.Main = scripts[0]
	var classes []string
	for f := range forms {
		classes = append(classes, f)
	}
	classes = append(classes, fmt.Sprintf("gomod:%v", hasMod), fmt.Sprintf("dirs:%d", len(dirs)), fmt.Sprintf("scripts:%d", n))
	if nested != "" {
		classes = append(classes, "nested-module")
	}
	if path.Dir(c.Main) != "/w/proj" {
		classes = append(classes, "main-below-root")
	}
	nt := (len(dirs) >= 2 && len(forms) >= 2) || forms["import:data.json"] || forms["import:data.yaml"] || forms["import:data.txt"] || !hasMod
	return c, nt, uniq(classes)
}

func srcCtx(fs afero.Fs) context.Context {
	ctx := ctxfs.SourceFsOnto(context.Background(), fs)
	ctx = ctxfs.RuntimeFsOnto(ctx, afero.NewMemMapFs())
	return ctxrootcache.WithRootCache(ctx)
}

var chdirMu sync.Mutex

func checkBundleCase(c bundleCase) *Failure {
	type res struct{ f *Failure }
	ch := make(chan res, 1)
	go func() { ch <- res{checkBundleCase1(c)} }()
	select {
	case r := <-ch:
		return r.f
	case <-time.After(3 * hangBound):
		return mkFailure("C15", "C15/bundle", "", "bundling or running did not finish", c)
	}
}

func guardEval(f func() (rel.Value, error)) (out obs.Outcome2) {
	defer func() {
		if r := recover(); r != nil {
			out = obs.Outcome2{Outcome: obs.Outcome{Kind: "panic", Panic: fmt.Sprint(r)}}
		}
	}()
	v, err := f()
	if err != nil {
		return obs.Outcome2{Outcome: obs.Outcome{Kind: "error"}, ErrObj: err}
	}
	return obs.Outcome2{Outcome: obs.Outcome{Kind: "value", Value: v}}
}

func errText(o obs.Outcome2) string {
	switch {
	case o.Kind == "panic":
		return "panic: " + o.Panic
	case o.ErrObj != nil && !isParseError(o.ErrObj):
		return "error: " + firstLine(o.ErrObj.Error())
	case o.ErrObj != nil:
		return "error (parse error)"
	}
	return o.Kind
}

func checkBundleCase1(c bundleCase) *Failure {
	fail := func(sig, format string, args ...interface{}) *Failure {
		if known("C15", sig) {
			return nil
		}
		var listing []string
		for p, src := range c.Files {
			listing = append(listing, "  "+p+": "+strings.ReplaceAll(src, "\n", "\\n"))
		}
		sort.Strings(listing)
		return mkFailure("C15", "C15/bundle", sig, fmt.Sprintf("main: %s\n%s\n", c.Main, strings.Join(listing, "\n"))+fmt.Sprintf(format, args...), c)
	}
	mem := afero.NewMemMapFs()
	for p, src := range c.Files {
		_ = mem.MkdirAll(path.Dir(p), 0o755)
		_ = afero.WriteFile(mem, p, []byte(src), 0o644)
	}
	// 1. run from source, recording what is opened
	rec := &recFs{Fs: mem, root: "/"}
	source := guardEval(func() (rel.Value, error) { return syntax.EvaluateExpr(srcCtx(rec), c.Main, c.Files[c.Main]) })
	// 2. bundle
	var buf bytes.Buffer
	bundled := guardEval(func() (rel.Value, error) { return rel.None, bundle.BundledScripts(srcCtx(mem), c.Main, &buf) })
	if bundled.Kind != "value" {
		if source.Kind != "value" {
			return nil // neither the script nor the bundle can be produced
		}
		return fail("", "the script evaluates from source (%s) but bundling fails: %s", obs.Repr(source.Value), errText(bundled))
	}
	// 3. run the bundle with filesystems that must not be consulted, from other working directories
	chdirMu.Lock()
	defer chdirMu.Unlock()
	orig, _ := os.Getwd()
	defer func() { _ = os.Chdir(orig) }()
	for _, wd := range []string{orig, "/", os.TempDir()} {
		if err := os.Chdir(wd); err != nil {
			continue
		}
		srcSpy := &countFs{Fs: afero.NewMemMapFs()}
		rtSpy := &countFs{Fs: afero.NewMemMapFs()}
		ctx := ctxfs.SourceFsOnto(context.Background(), srcSpy)
		ctx = ctxfs.RuntimeFsOnto(ctx, rtSpy)
		ctx = ctxrootcache.WithRootCache(ctx)
		run := guardEval(func() (rel.Value, error) { return syntax.EvaluateBundleCtx(ctx, buf.Bytes()) })
		if run.Kind == "panic" {
			return fail("", "running the bundle (cwd %s) panicked: %s", wd, run.Panic)
		}
		if (run.Kind == "value") != (source.Kind == "value") {
			return fail("", "from source: %s\nfrom the bundle (cwd %s): %s\narchive: %v", describeOutcome(source), wd, describeOutcome(run), zipNames(buf.Bytes()))
		}
		if run.Kind == "value" && (!run.Value.Equal(source.Value) || !source.Value.Equal(run.Value) || obs.Repr(run.Value) != obs.Repr(source.Value)) {
			return fail("", "the bundle (cwd %s) evaluates to %s but the sources evaluate to %s\narchive: %v", wd, obs.Repr(run.Value), obs.Repr(source.Value), zipNames(buf.Bytes()))
		}
		if len(srcSpy.calls)+len(rtSpy.calls) > 0 {
			return fail("", "running the bundle (cwd %s) consulted the filesystem outside the archive: source fs %v, runtime fs %v", wd, srcSpy.calls, rtSpy.calls)
		}
	}
	// 4. the archive holds every file the source run read
	if source.Kind == "value" {
		names := zipNames(buf.Bytes())
		rec.mu.Lock()
		reads := append([]string{}, rec.reads...)
		rec.mu.Unlock()
		for _, p := range reads {
			if path.Base(p) == "go.mod" {
				continue
			}
			// the archive is rooted at the main file's module (or directory): an
			// entry must end like the file's path (at least its name, and its
			// directory when the entry has one below the module path)
			found := false
			for _, n := range names {
				comps := strings.Split(strings.TrimPrefix(n, "/"), "/")
				if len(comps) < 2 || comps[len(comps)-1] != path.Base(p) {
					continue
				}
				if comps[0] == "unnamed" && len(comps) > 2 && !strings.HasSuffix(p, "/"+strings.Join(comps[1:], "/")) {
					continue
				}
				found = true
			}
			if !found {
				return fail("", "the source run read %s but the archive has no entry for it: %v", p, names)
			}
		}
	}
	return nil
}

func describeOutcome(o obs.Outcome2) string {
	if o.Kind == "value" {
		return "value " + obs.Repr(o.Value)
	}
	return errText(o)
}

func zipNames(data []byte) []string {
	zr, err := zip.NewReader(bytes.NewReader(data), int64(len(data)))
	if err != nil {
		return []string{"<unreadable archive: " + err.Error() + ">"}
	}
	var names []string
	for _, f := range zr.File {
		names = append(names, f.Name)
	}
	sort.Strings(names)
	return names
}

func init() {
	register("C15/bundle", func(raw json.RawMessage) *Failure {
		var c bundleCase
		if err := json.Unmarshal(raw, &c); err != nil {
			return &Failure{Property: "C15", Check: "C15/bundle", Detail: "bad case: " + err.Error()}
		}
		return checkBundleCase(c)
	})
}

func TestC15(t *testing.T) {
	rapid.Check(t, func(t *rapid.T) {
		c, nt, classes := genC15(t)
		raw, _ := json.Marshal(c)
		stats.Case(nt, string(raw), classes...)
		report(t, checkBundleCase(c))
	})
}
