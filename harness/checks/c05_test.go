package checks

import (
	"encoding/json"
	"fmt"
	"strings"
	"testing"

	"pgregory.net/rapid"

	"verif/model"
)

// C05 — keyed collections act as functions; >>, >>>, ++ and offsets keep keys right.

type keyedCase struct {
	EvalCase
	Op string `json:"op"`
}

var c05Cfg = gcfg{oddSugar: false, superimposed: true, quotedNames: false}

// genKeyed draws a set all of whose members are pairs (@: k, attr: x).
func genKeyed(t *rapid.T, g gcfg, depth int) (*model.V, string) {
	kind := pick(t, "ckind", "str", "bytes", "arr", "arr", "dict", "dict", "dictnum", "foo", "mixed", "seqpairs")
	switch kind {
	case "str", "bytes", "arr":
		return g.genSeq(t, kind, depth), kind
	case "dict":
		v := g.genSetKind(t, "dict", depth)
		if chance(t, "multi", 30) && len(v.Elems) > 0 {
			e := v.Elems[rapid.IntRange(0, len(v.Elems)-1).Draw(t, "mk")]
			at, _ := e.Get("@")
			v = model.With(v, model.Tup("@", at, "@value", g.genVal(t, depth-1)))
		}
		return v, kind
	case "dictnum":
		n := rapid.IntRange(1, 4).Draw(t, "n")
		var kv []*model.V
		for i := 0; i < n; i++ {
			kv = append(kv, genSmallInt(t, "key", -1, 4), g.genVal(t, depth-1))
		}
		return model.Dict(kv...), kind
	case "foo":
		n := rapid.IntRange(1, 4).Draw(t, "n")
		var ms []*model.V
		for i := 0; i < n; i++ {
			ms = append(ms, model.Tup("@", genSmallInt(t, "key", 0, 3), "@foo", g.genVal(t, depth-1)))
		}
		return model.SetOf(ms...), kind
	case "mixed":
		a, _ := genKeyed(t, g, depth)
		b, _ := genKeyed(t, g, depth)
		return model.Union(a, b), kind
	default:
		v := g.genSetKind(t, "seqpairs", depth)
		return v, kind
	}
}

func numericVals(c *model.V) bool {
	for _, e := range c.Elems {
		for i, n := range e.Names {
			if n != "@" && !e.Vals[i].IsNum() {
				return false
			}
		}
	}
	return len(c.Elems) > 0
}

func numericKeys(c *model.V) bool {
	for _, e := range c.Elems {
		at, _ := e.Get("@")
		if !at.IsNum() {
			return false
		}
	}
	return len(c.Elems) > 0
}

func hasCharOrByte(c *model.V) bool {
	for _, e := range c.Elems {
		if a, ok := e.SugarAttr(); ok && (a == "@char" || a == "@byte") {
			return true
		}
	}
	return false
}

func shiftF(c *model.V, n float64) *model.V {
	return model.MapSet(c, func(e *model.V) *model.V {
		at, _ := e.Get("@")
		return model.MergeTup(e, model.Tup("@", model.Num(at.N+n)))
	})
}

func genC05(t *rapid.T) (keyedCase, bool, []string) {
	g := c05Cfg
	depth := 2
	r := newRenderer(t)
	op := pick(t, "op", "call", "call", "safecall", "safecall", ">>", ">>", ">>>", "++", "++", "offset", "offset")
	c, kind := genKeyed(t, g, depth)
	src := "(" + r.expr(g, c, 25) + ")"
	kc := keyedCase{Op: op}
	classes := []string{"op:" + op, "coll:" + kind, "repr:" + reprKind(c)}
	var result *model.V
	others := []*model.V{}
	argClass := ""
	genArg := func() *model.V {
		switch pick(t, "argkind", "present", "present", "present", "absent", "frac", "wrongkind", "any") {
		case "present":
			if len(c.Elems) > 0 {
				at, _ := c.Elems[rapid.IntRange(0, len(c.Elems)-1).Draw(t, "pi")].Get("@")
				argClass = "present"
				return at
			}
			fallthrough
		case "absent":
			argClass = "absent"
			return genSmallInt(t, "absent", -3, 7)
		case "frac":
			argClass = "non-integer"
			return model.Num(pick(t, "frac", 0.5, 1.5, -0.5))
		case "wrongkind":
			argClass = "wrong-kind"
			return pick(t, "wk", model.Str(0, "a"), model.Tup("a", 1), model.None, model.SetOf(model.Num(1)), model.Arr(0, model.Num(0)))
		default:
			argClass = "any"
			return g.genKey(t)
		}
	}
	switch op {
	case "call", "safecall":
		k := genArg()
		vals, _ := model.CallAll(c, k)
		// distinct values only
		distinct := model.SetOf(vals...)
		classes = append(classes, "arg:"+argClass, fmt.Sprintf("nvals:%d", min(len(distinct.Elems), 2)))
		if op == "call" {
			kc.Src = src + "(" + r.lit(k) + ")"
			if len(distinct.Elems) == 1 {
				result = distinct.Elems[0]
			}
		} else {
			d := genNum(t, "fallback")
			kc.Src = src + "(" + r.lit(k) + ")?:" + model.SrcNum(d.N+1000)
			switch len(distinct.Elems) {
			case 0:
				result = model.Num(d.N + 1000)
			case 1:
				result = distinct.Elems[0]
			}
		}
		others = append(others, k)
	case ">>", ">>>":
		which := "id"
		opts := []string{"id", "wrapset", "pair"}
		if numericVals(c) {
			opts = append(opts, "inc", "inc", "const")
		}
		if op == ">>>" {
			opts = []string{"keyval", "key"}
			if numericVals(c) && numericKeys(c) {
				opts = append(opts, "sum", "sum")
			}
		}
		which = pick(t, "fn", opts...)
		var fsrc string
		var f func(k, x *model.V) *model.V
		switch which {
		case "id":
			fsrc, f = ".", func(k, x *model.V) *model.V { return x }
		case "wrapset":
			fsrc, f = "{.}", func(k, x *model.V) *model.V { return model.SetOf(x) }
		case "pair":
			fsrc, f = "[., 1]", func(k, x *model.V) *model.V { return model.Arr(0, x, model.Num(1)) }
		case "inc":
			fsrc, f = ". + 1", func(k, x *model.V) *model.V { return model.Num(x.N + 1) }
		case "const":
			fsrc, f = ". * 0 + 98", func(k, x *model.V) *model.V { return model.Num(98) }
		case "keyval":
			fsrc, f = `\k \v [k, v]`, func(k, x *model.V) *model.V { return model.Arr(0, k, x) }
		case "key":
			fsrc, f = `\k \v k`, func(k, x *model.V) *model.V { return k }
		case "sum":
			fsrc, f = `\k \v k + v`, func(k, x *model.V) *model.V { return model.Num(k.N + x.N) }
		}
		classes = append(classes, "fn:"+which)
		kc.Src = src + " " + op + " " + fsrc
		result = model.MapValues(c, f)
		// strings and byte arrays may reject values that are not chars/bytes
		if hasCharOrByte(c) && len(tagsOf(result)) > 0 || hasCharOrByte(c) && !numericVals(result) {
			kc.OrFail = true
		}
		if len(c.Elems) == 0 {
			kc.OrFail = true
		}
	case "++":
		b, kindB := genKeyed(t, g, depth)
		classes = append(classes, "rhs:"+kindB)
		kc.Src = src + " ++ (" + r.expr(g, b, 25) + ")"
		if numericKeys(b) || len(b.Elems) == 0 {
			result = model.Union(c, shiftF(b, float64(c.Count())))
		}
		others = append(others, b)
	case "offset":
		n := pick(t, "n", 0.0, 1, 2, -1, -3, 1.5, 0.5)
		kc.Src = model.SrcNum(n) + "\\" + src
		_, isSeq := c.AsSeq()
		switch {
		case !isSeq:
			// offsets are defined for sequences; anything else must be an error or exact
			if numericKeys(c) {
				result = shiftF(c, n)
			}
			kc.OrFail = true
		case n != float64(int(n)):
			result = shiftF(c, n)
			kc.OrFail = true
			classes = append(classes, "offset:non-integer")
		default:
			result = shiftF(c, n)
		}
	}
	if result == nil {
		kc.Expect = expectFail
	} else {
		kc.Expect = result.Key()
	}
	kc.Tags = tagsOf(append(append(r.vals, c, result), others...)...)
	for _, tg := range kc.Tags {
		classes = append(classes, "tag:"+tg)
	}
	classes = append(classes, r.formList()...)
	rk := reprKind(c)
	nt := strings.Contains(rk, "+") || rk == "union" || rk == "superimposed" || argClass == "absent" || argClass == "non-integer" || argClass == "wrong-kind" || kind == "mixed"
	return kc, nt, classes
}

func checkKeyedCase(c keyedCase) *Failure {
	kind, detail, _ := evalMismatch(c.EvalCase)
	if kind == "" {
		return nil
	}
	sig := valueSig(c.EvalCase, kind)
	if known("C05", sig) {
		return nil
	}
	return mkFailure("C05", "C05/keyed", sig, detail, c)
}

func init() {
	register("C05/keyed", func(raw json.RawMessage) *Failure {
		var c keyedCase
		if err := json.Unmarshal(raw, &c); err != nil {
			return &Failure{Property: "C05", Check: "C05/keyed", Detail: "bad case: " + err.Error()}
		}
		return checkKeyedCase(c)
	})
}

func TestC05(t *testing.T) {
	rapid.Check(t, func(t *rapid.T) {
		c, nt, classes := genC05(t)
		stats.Case(nt, c.Src, classes...)
		report(t, checkKeyedCase(c))
	})
}
