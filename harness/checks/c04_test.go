package checks

import (
	"encoding/json"
	"fmt"
	"sort"
	"strings"
	"testing"

	"pgregory.net/rapid"

	"github.com/arr-ai/arrai/rel"

	"verif/model"
	"verif/obs"
)

// C04 — join family, nest/unnest and rank obey their relational definitions.

type relCase struct {
	EvalCase
	Op string `json:"op"`
	// UnnestAttr: after evaluating Src (a nest), rel.Unnest(result, attr) must give UnnestExpect.
	UnnestAttr   string `json:"unnest_attr,omitempty"`
	UnnestExpect string `json:"unnest_expect,omitempty"`
}

var c04Cfg = gcfg{oddSugar: false, superimposed: true, quotedNames: false}

var joinOps = []string{"<&>", "<->", "-&-", "---", "-&>", "<&-", "-->", "<--"}

var c04Attrs = []string{"a", "b", "c", "d", "@", "@item", "@char", "@value", "@foo"}

func attrDomain(t *rapid.T, attr string) *model.V {
	switch attr {
	case "@char":
		return model.Num(float64(pick(t, "cell", 97, 98)))
	case "@foo":
		return genSmallInt(t, "cell", 0, 1)
	}
	return genSmallInt(t, "cell", 0, 2)
}

func genRel(t *rapid.T, h []string, maxRows int) *model.V {
	n := rapid.IntRange(0, maxRows).Draw(t, "nrows")
	var rows []*model.V
	for i := 0; i < n; i++ {
		m := map[string]*model.V{}
		for _, a := range h {
			m[a] = attrDomain(t, a)
		}
		rows = append(rows, model.TupMap(m))
	}
	return model.SetOf(rows...)
}

func genJoinHeadings(t *rapid.T) (ha, hb []string) {
	if chance(t, "sugarmode", 30) {
		x := pick(t, "sugarx", "@item", "@char", "@value", "@foo", "@byte")
		switch pick(t, "sugarshape", "seq-vs-rel", "split", "seq-vs-seq") {
		case "seq-vs-rel":
			ha = []string{"@", x}
			hb = rapid.SliceOfNDistinct(rapid.SampledFrom([]string{"@", x, "a", "b"}), 1, 3, rapid.ID[string]).Draw(t, "hb")
		case "split":
			ha, hb = []string{"@"}, []string{x}
			if chance(t, "extra", 40) {
				hb = append(hb, "@")
			}
		default:
			ha = []string{"@", x}
			hb = []string{"@", pick(t, "sugary", "@item", "@value", x)}
		}
		if chance(t, "swap", 50) {
			ha, hb = hb, ha
		}
	} else {
		ha = rapid.SliceOfNDistinct(rapid.SampledFrom(c04Attrs[:5]), 0, 3, rapid.ID[string]).Draw(t, "ha")
		hb = rapid.SliceOfNDistinct(rapid.SampledFrom(c04Attrs[:5]), 0, 3, rapid.ID[string]).Draw(t, "hb")
	}
	sort.Strings(ha)
	sort.Strings(hb)
	return
}

func genC04(t *rapid.T) (relCase, bool, []string) {
	g := c04Cfg
	r := newRenderer(t)
	r.prefer = "join-split"
	kind := pick(t, "c04kind", "join", "join", "join", "join", "nest", "nest", "rank")
	c := relCase{}
	var classes []string
	var involved []*model.V
	nt := false
	switch kind {
	case "join":
		op := pick(t, "joinop", joinOps...)
		ha, hb := genJoinHeadings(t)
		a, b := genRel(t, ha, 4), genRel(t, hb, 4)
		left, common, right := model.JoinParts(ha, hb)
		c.Op = op
		c.Src = "(" + r.expr(g, a, 35) + ") " + op + " (" + r.expr(g, b, 35) + ")"
		res := model.Join(op, a, b, ha, hb)
		c.Expect = res.Key()
		involved = []*model.V{a, b, res}
		matches := model.Join("<&>", a, b, ha, hb).Count()
		classes = append(classes, "op:"+op, fmt.Sprintf("parts:%d/%d/%d", min(len(left), 1), min(len(common), 1), min(len(right), 1)),
			"lhs:"+reprKind(a), "rhs:"+reprKind(b), "res:"+reprKind(res))
		sugarHeading := func(h []string) bool { return len(h) == 2 && h[0] == "@" && strings.HasPrefix(h[1], "@") }
		nt = (matches > 0 && matches < a.Count()*b.Count()) || len(left) == 0 || len(common) == 0 || len(right) == 0 || sugarHeading(ha) || sugarHeading(hb)
	case "nest":
		h := rapid.SliceOfNDistinct(rapid.SampledFrom([]string{"a", "b", "c", "d"}), 2, 4, rapid.ID[string]).Draw(t, "h")
		sort.Strings(h)
		a := genRel(t, h, 5)
		form := pick(t, "nestform", "attrs", "inverse", "single")
		src := "(" + r.expr(g, a, 35) + ")"
		var res *model.V
		switch form {
		case "attrs":
			n := rapid.IntRange(1, len(h)-1).Draw(t, "nnest")
			attrs := append([]string{}, rapid.Permutation(h).Draw(t, "nestperm")[:n]...)
			c.Src = src + " nest |" + strings.Join(attrs, ", ") + "|n"
			res = model.Nest(a, h, attrs, "n")
			c.UnnestAttr = "n"
		case "inverse":
			n := rapid.IntRange(1, len(h)-1).Draw(t, "nkeep")
			keep := append([]string{}, rapid.Permutation(h).Draw(t, "keepperm")[:n]...)
			var attrs []string
			for _, x := range h {
				if !inNamesList(keep, x) {
					attrs = append(attrs, x)
				}
			}
			c.Src = src + " nest ~|" + strings.Join(keep, ", ") + "|n"
			res = model.Nest(a, h, attrs, "n")
			c.UnnestAttr = "n"
		default:
			attr := pick(t, "single", h...)
			c.Src = src + " nest " + attr
			nested := model.Nest(a, h, []string{attr}, attr)
			res = model.MapSet(nested, func(row *model.V) *model.V {
				inner, _ := row.Get(attr)
				vals := model.MapSet(inner, func(u *model.V) *model.V { x, _ := u.Get(attr); return x })
				return model.MergeTup(row, model.TupMap(map[string]*model.V{attr: vals}))
			})
		}
		if len(a.Elems) == 0 {
			res = model.None
			c.UnnestAttr = ""
		}
		c.Op = "nest:" + form
		c.Expect = res.Key()
		c.UnnestExpect = a.Key()
		involved = []*model.V{a, res}
		classes = append(classes, "op:nest-"+form, "lhs:"+reprKind(a))
		nt = res.Count() < a.Count() && res.Count() > 1
	case "rank":
		h := rapid.SliceOfNDistinct(rapid.SampledFrom([]string{"a", "b", "c"}), 1, 3, rapid.ID[string]).Draw(t, "h")
		sort.Strings(h)
		a := genRel(t, h, 5)
		nr := rapid.IntRange(1, 2).Draw(t, "nrank")
		var rankSrc []string
		rankAttr := []string{}
		keyOf := []string{}
		for i := 0; i < nr; i++ {
			name := []string{"r", "s"}[i]
			key := pick(t, "rankkey", h...)
			rankSrc = append(rankSrc, name+": ."+key)
			rankAttr = append(rankAttr, name)
			keyOf = append(keyOf, key)
		}
		c.Op = "rank"
		c.Src = "(" + r.expr(g, a, 35) + ") rank (" + strings.Join(rankSrc, ", ") + ")"
		res := model.MapSet(a, func(row *model.V) *model.V {
			out := row
			for i, name := range rankAttr {
				mine, _ := row.Get(keyOf[i])
				n := 0
				for _, other := range a.Elems {
					o, _ := other.Get(keyOf[i])
					if o.N < mine.N {
						n++
					}
				}
				out = model.MergeTup(out, model.Tup(name, n))
			}
			return out
		})
		c.Expect = res.Key()
		involved = []*model.V{a, res}
		classes = append(classes, "op:rank", "lhs:"+reprKind(a))
		nt = a.Count() >= 3
	}
	c.Tags = tagsOf(append(r.vals, involved...)...)
	if kind == "join" && !c.hasTag("bytes-sparse") {
		// A join whose operands are not both stored as relations unions its result
		// together one key group at a time in hash order; a byte array of three or
		// more members then passes through a byte array with a gap, which the
		// implementation cannot represent (known finding bytes-sparse).
		for _, v := range involved {
			if len(byteIdx(v)) >= 3 {
				c.Tags = append(c.Tags, "bytes-sparse")
				break
			}
		}
	}
	for _, tg := range c.Tags {
		classes = append(classes, "tag:"+tg)
	}
	classes = append(classes, r.formList()...)
	return c, nt, classes
}

func checkRelCase(c relCase) *Failure {
	kind, detail, out := evalMismatch(c.EvalCase)
	sig := valueSig(c.EvalCase, kind)
	if kind != "" {
		if known("C04", sig) {
			return nil
		}
		return mkFailure("C04", "C04/relop", sig, detail, c)
	}
	if c.UnnestAttr != "" && out.Kind == "value" {
		// unnest inverts nest: through the exported operation and through the source operator
		o := obs.Guard(func() (rel.Value, error) {
			s, ok := out.Value.(rel.Set)
			if !ok {
				return nil, fmt.Errorf("nest result is not a set")
			}
			return rel.Unnest(s, c.UnnestAttr)
		})
		want := c.UnnestExpect
		if v, err := model.ParseKey(want); err == nil {
			want = v.Key()
		}
		bad := ""
		if o.Kind != "value" {
			bad = o.String()
		} else if got, an := obs.Denote(o.Value); got.Key() != want || len(an) > 0 {
			bad = got.Key() + " " + strings.Join(an, "; ")
		}
		if bad != "" {
			if known("C04", sig) {
				return nil
			}
			return mkFailure("C04", "C04/relop", sig, fmt.Sprintf("program: %s\nunnest %s of the result must give back the operand\nexpected: %s\nobserved: %s", c.Src, c.UnnestAttr, want, bad), c)
		}
		// the same through the source operator
		src := "(" + c.Src + ") unnest " + c.UnnestAttr
		if o := obs.Eval(src); o.Kind != "value" {
			bad = o.String()
		} else if got, an := obs.Denote(o.Value); got.Key() != want || len(an) > 0 {
			bad = got.Key() + " " + strings.Join(an, "; ")
		}
		if bad != "" {
			if known("C04", sig) {
				return nil
			}
			return mkFailure("C04", "C04/relop", sig, fmt.Sprintf("program: %s\nmust give back the operand of the nest\nexpected: %s\nobserved: %s", src, want, bad), c)
		}
	}
	return nil
}

func init() {
	register("C04/relop", func(raw json.RawMessage) *Failure {
		var c relCase
		if err := json.Unmarshal(raw, &c); err != nil {
			return &Failure{Property: "C04", Check: "C04/relop", Detail: "bad case: " + err.Error()}
		}
		return checkRelCase(c)
	})
}

func TestC04(t *testing.T) {
	rapid.Check(t, func(t *rapid.T) {
		c, nt, classes := genC04(t)
		stats.Case(nt, c.Src, classes...)
		report(t, checkRelCase(c))
	})
}
