package checks

import (
	"encoding/json"
	"fmt"
	"sort"
	"strings"
	"testing"

	"pgregory.net/rapid"

	"verif/model"
)

// C09 — pattern matching binds exactly what construction would produce.

type pat struct {
	kind  string // num str name wild expr arr tup dict
	num   float64
	str   string
	name  string
	items []*pat   // arr: element patterns; tup/dict: value patterns (parallel to keys)
	keys  []string // tup: attribute names; dict: string keys
	falls []*model.V
	// rest: position of "...name" among the items (arr) or -1; restName "" = anonymous
	rest     int
	restName string
}

type patCase struct {
	EvalCase
	Ctx     string   `json:"ctx"`
	Feature []string `json:"feature"`
}

var c09Cfg = gcfg{oddSugar: false, superimposed: false, quotedNames: false}

type patGen struct {
	t     *rapid.T
	names []string
	used  map[string]bool
	feat  map[string]bool
}

func (g *patGen) bindName() string {
	// reuse an earlier name sometimes: repeated names must agree
	if len(g.names) > 0 && chance(g.t, "repeat", 15) {
		g.feat["repeated-name"] = true
		return pick(g.t, "rep", g.names...)
	}
	n := fmt.Sprintf("%c", 'p'+len(g.names))
	g.names = append(g.names, n)
	return n
}

func (g *patGen) gen(depth int) *pat {
	k := rapid.IntRange(0, 11).Draw(g.t, "pkind")
	if depth <= 0 && k > 5 {
		k = k % 6
	}
	switch k {
	case 0, 1, 2:
		return &pat{kind: "name", name: g.bindName(), rest: -1}
	case 3:
		return &pat{kind: "num", num: float64(rapid.IntRange(0, 3).Draw(g.t, "n")), rest: -1}
	case 4:
		if chance(g.t, "wild", 50) {
			return &pat{kind: "wild", rest: -1}
		}
		return &pat{kind: "str", str: pick(g.t, "s", "a", "ab", "1"), rest: -1}
	case 5:
		g.feat["expr-pattern"] = true
		return &pat{kind: "expr", num: float64(rapid.IntRange(1, 2).Draw(g.t, "e")), rest: -1}
	case 6, 7, 8:
		n := rapid.IntRange(0, 3).Draw(g.t, "alen")
		p := &pat{kind: "arr", rest: -1}
		for i := 0; i < n; i++ {
			p.items = append(p.items, g.gen(depth-1))
			p.falls = append(p.falls, nil)
		}
		if chance(g.t, "rest", 40) {
			g.feat["rest"] = true
			p.rest = rapid.IntRange(0, n).Draw(g.t, "restpos")
			if chance(g.t, "restnamed", 80) {
				p.restName = fmt.Sprintf("r%d", len(g.names)+len(g.feat))
			}
		} else if n > 0 && chance(g.t, "fallback", 25) {
			g.feat["fallback"] = true
			// trailing items may have fallbacks
			p.falls[n-1] = model.Num(float64(rapid.IntRange(5, 9).Draw(g.t, "fb")))
		}
		return p
	case 9, 10:
		n := rapid.IntRange(0, 3).Draw(g.t, "tlen")
		p := &pat{kind: "tup", rest: -1}
		names := rapid.Permutation([]string{"a", "b", "c"}).Draw(g.t, "tnames")[:n]
		sort.Strings(names)
		for _, a := range names {
			p.keys = append(p.keys, a)
			p.items = append(p.items, g.gen(depth-1))
			var fb *model.V
			if chance(g.t, "fallback", 20) {
				g.feat["fallback"] = true
				fb = model.Num(float64(rapid.IntRange(5, 9).Draw(g.t, "fb")))
			}
			p.falls = append(p.falls, fb)
		}
		if chance(g.t, "rest", 30) {
			g.feat["rest"] = true
			p.rest = n
			if chance(g.t, "restnamed", 80) {
				p.restName = fmt.Sprintf("r%d", len(g.names)+len(g.feat))
			}
		}
		return p
	default:
		n := rapid.IntRange(1, 2).Draw(g.t, "dlen")
		p := &pat{kind: "dict", rest: -1}
		keys := rapid.Permutation([]string{"k", "j", "m"}).Draw(g.t, "dkeys")[:n]
		sort.Strings(keys)
		for _, a := range keys {
			p.keys = append(p.keys, a)
			p.items = append(p.items, g.gen(depth-1))
			var fb *model.V
			if chance(g.t, "fallback", 20) {
				g.feat["fallback"] = true
				fb = model.Num(float64(rapid.IntRange(5, 9).Draw(g.t, "fb")))
			}
			p.falls = append(p.falls, fb)
		}
		if chance(g.t, "rest", 30) {
			g.feat["rest"] = true
			p.rest = n
			if chance(g.t, "restnamed", 80) {
				p.restName = fmt.Sprintf("r%d", len(g.names)+len(g.feat))
			}
		} else {
			for _, fb := range p.falls {
				if fb != nil {
					g.feat["dict-fallback-no-rest"] = true
				}
			}
		}
		return p
	}
}

func (p *pat) src() string {
	switch p.kind {
	case "num":
		return fmt.Sprint(p.num)
	case "str":
		return `"` + p.str + `"`
	case "name":
		return p.name
	case "wild":
		return "_"
	case "expr":
		return fmt.Sprintf("(%v + 1)", p.num-1)
	case "arr":
		var parts []string
		for i, it := range p.items {
			if p.rest == i {
				parts = append(parts, "..."+p.restName)
			}
			if p.falls[i] != nil {
				parts = append(parts, "?"+it.src()+":"+model.SrcNum(p.falls[i].N))
			} else {
				parts = append(parts, it.src())
			}
		}
		if p.rest == len(p.items) {
			parts = append(parts, "..."+p.restName)
		}
		return "[" + strings.Join(parts, ", ") + "]"
	case "tup", "dict":
		var parts []string
		for i, it := range p.items {
			key := p.keys[i]
			if p.kind == "dict" {
				key = `"` + key + `"`
			}
			if p.falls[i] != nil {
				parts = append(parts, key+"?: "+it.src()+":"+model.SrcNum(p.falls[i].N))
			} else {
				parts = append(parts, key+": "+it.src())
			}
		}
		if p.rest >= 0 {
			parts = append(parts, "..."+p.restName)
		}
		if p.kind == "dict" {
			return "{" + strings.Join(parts, ", ") + "}"
		}
		return "(" + strings.Join(parts, ", ") + ")"
	}
	panic("pat.src")
}

// boundNames lists every name the pattern binds.
func (p *pat) boundNames(out map[string]bool) {
	if p.kind == "name" {
		out[p.name] = true
	}
	if p.rest >= 0 && p.restName != "" {
		out[p.restName] = true
	}
	for _, it := range p.items {
		it.boundNames(out)
	}
}

// instantiate builds a value the pattern matches (names get random values,
// repeated names the same one); absent says how often components with a
// fallback are left out.
func (p *pat) instantiate(t *rapid.T, g gcfg, env map[string]*model.V) *model.V {
	switch p.kind {
	case "num":
		return model.Num(p.num)
	case "str":
		return model.Str(0, p.str)
	case "expr":
		return model.Num(p.num)
	case "wild":
		return g.genVal(t, 1)
	case "name":
		if v, ok := env[p.name]; ok {
			return v
		}
		v := g.genVal(t, 1)
		if !clean(v) {
			v = model.Num(7)
		}
		env[p.name] = v
		return v
	case "arr":
		var items []*model.V
		for i, it := range p.items {
			if p.rest == i {
				for n := rapid.IntRange(0, 2).Draw(t, "restlen"); n > 0; n-- {
					items = append(items, genNum(t, "restitem"))
				}
			}
			if p.falls[i] != nil && i == len(p.items)-1 && chance(t, "absent", 50) {
				continue
			}
			items = append(items, it.instantiate(t, g, env))
		}
		if p.rest == len(p.items) {
			for n := rapid.IntRange(0, 2).Draw(t, "restlen"); n > 0; n-- {
				items = append(items, genNum(t, "restitem"))
			}
		}
		return model.Arr(0, items...)
	case "tup":
		m := map[string]*model.V{}
		for i, it := range p.items {
			if p.falls[i] != nil && chance(t, "absent", 50) {
				continue
			}
			m[p.keys[i]] = it.instantiate(t, g, env)
		}
		if p.rest >= 0 {
			for n := rapid.IntRange(0, 2).Draw(t, "restlen"); n > 0; n-- {
				m[pick(t, "extra", "x", "y", "z")] = genNum(t, "restitem")
			}
		}
		return model.TupMap(m)
	default:
		var kv []*model.V
		for i, it := range p.items {
			if p.falls[i] != nil && chance(t, "absent", 50) {
				continue
			}
			kv = append(kv, model.Str(0, p.keys[i]), it.instantiate(t, g, env))
		}
		if p.rest >= 0 {
			for n := rapid.IntRange(0, 2).Draw(t, "restlen"); n > 0; n-- {
				kv = append(kv, model.Str(0, pick(t, "extra", "x", "y", "z")), genNum(t, "restitem"))
			}
		}
		return model.Dict(kv...)
	}
}

// match is the reference matcher: the pattern matches v iff some binding of
// its names makes the pattern, read as an expression, rebuild v.
func (p *pat) match(v *model.V, env map[string]*model.V) bool {
	bind := func(name string, x *model.V) bool {
		if old, ok := env[name]; ok {
			return model.Eq(old, x)
		}
		env[name] = x
		return true
	}
	switch p.kind {
	case "num", "expr":
		return v.K == model.KNum && v.N == p.num
	case "str":
		return model.Eq(v, model.Str(0, p.str))
	case "wild":
		return true
	case "name":
		return bind(p.name, v)
	case "arr":
		var items []*model.V
		if v.K != model.KSet {
			return false
		}
		if len(v.Elems) > 0 {
			sv, ok := v.AsSeq()
			if !ok || sv.Attr != "@item" || sv.Off != 0 || sv.Holes > 0 {
				return false
			}
			items = sv.Items
		}
		required := 0
		for i := range p.items {
			if p.falls[i] == nil {
				required++
			}
		}
		if p.rest < 0 {
			if len(items) > len(p.items) || len(items) < required {
				return false
			}
			for i, it := range p.items {
				if i < len(items) {
					if !it.match(items[i], env) {
						return false
					}
				} else if fb := p.falls[i]; fb == nil || !it.match(fb, env) {
					return false
				}
			}
			return true
		}
		if len(items) < len(p.items) {
			return false
		}
		tail := len(p.items) - p.rest
		for i := 0; i < p.rest; i++ {
			if !p.items[i].match(items[i], env) {
				return false
			}
		}
		for i := 0; i < tail; i++ {
			if !p.items[p.rest+i].match(items[len(items)-tail+i], env) {
				return false
			}
		}
		if p.restName != "" {
			return bind(p.restName, model.Arr(0, items[p.rest:len(items)-tail]...))
		}
		return true
	case "tup":
		if v.K != model.KTup {
			return false
		}
		rest := map[string]*model.V{}
		for i, n := range v.Names {
			rest[n] = v.Vals[i]
		}
		for i, it := range p.items {
			x, has := rest[p.keys[i]]
			switch {
			case has:
				delete(rest, p.keys[i])
				if !it.match(x, env) {
					return false
				}
			case p.falls[i] != nil:
				if !it.match(p.falls[i], env) {
					return false
				}
			default:
				return false
			}
		}
		if p.rest < 0 {
			return len(rest) == 0
		}
		if p.restName != "" {
			return bind(p.restName, model.TupMap(rest))
		}
		return true
	default:
		if v.K != model.KSet {
			return false
		}
		var kv [][2]*model.V
		if len(v.Elems) > 0 {
			var ok bool
			if kv, ok = v.AsDict(); !ok {
				return false
			}
		}
		rest := map[string]*model.V{}
		multi := map[string]bool{}
		var restKV []*model.V
		for _, e := range kv {
			if _, dup := rest[e[0].Key()]; dup {
				multi[e[0].Key()] = true
			}
			rest[e[0].Key()] = e[1]
		}
		for _, key := range p.keys {
			if multi[model.Str(0, key).Key()] {
				return false // several values at a matched key: the pattern's own entry cannot rebuild them
			}
		}
		for i, it := range p.items {
			k := model.Str(0, p.keys[i]).Key()
			x, has := rest[k]
			switch {
			case has:
				delete(rest, k)
				if !it.match(x, env) {
					return false
				}
			case p.falls[i] != nil:
				if !it.match(p.falls[i], env) {
					return false
				}
			default:
				return false
			}
		}
		if p.rest < 0 {
			return len(rest) == 0
		}
		if len(multi) > 0 && p.restName != "" {
			// a rest holding several values per key is a dict the model represents fine
		}
		for _, e := range kv {
			if _, still := rest[e[0].Key()]; still {
				restKV = append(restKV, e[0], e[1])
			}
		}
		if p.restName != "" {
			return bind(p.restName, model.Dict(restKV...))
		}
		return true
	}
}

func genC09(t *rapid.T) (patCase, bool, []string) {
	g := c09Cfg
	pg := &patGen{t: t, feat: map[string]bool{}}
	depth := 2
	if thorough() {
		depth = 3
	}
	p := pg.gen(depth)
	r := newRenderer(t)
	// the value: built from the pattern, a near miss of that, or unrelated
	var v *model.V
	origin := pick(t, "origin", "instance", "instance", "instance", "near-miss", "near-miss", "unrelated")
	inst := p.instantiate(t, g, map[string]*model.V{})
	switch origin {
	case "instance":
		v = inst
	case "near-miss":
		v = g.mutate(t, inst)
	default:
		v = g.genVal(t, 2)
	}
	if !clean(v) {
		v = inst
		origin = "instance"
	}
	names := map[string]bool{}
	p.boundNames(names)
	var ns []string
	for n := range names {
		ns = append(ns, n)
	}
	sort.Strings(ns)
	fields := make([]string, len(ns))
	for i, n := range ns {
		fields[i] = n + ": " + n
	}
	report := "(matched: 1" + strings.Join(append([]string{""}, fields...), ", ") + ")"
	env := map[string]*model.V{}
	matched := p.match(v, env)
	c := patCase{}
	vs := r.lit(v)
	ctx := pick(t, "ctx", "let", "fn", "cond", "cond2")
	expected := func(ok bool, e map[string]*model.V) *model.V {
		if !ok {
			return nil
		}
		m := map[string]*model.V{"matched": model.Num(1)}
		for _, n := range ns {
			m[n] = e[n]
		}
		return model.TupMap(m)
	}
	switch ctx {
	case "let":
		c.Src = "let " + p.src() + " = " + vs + "; " + report
		if want := expected(matched, env); want != nil {
			c.Expect = want.Key()
		} else {
			c.Expect = expectFail
		}
	case "fn":
		c.Src = "(\\" + p.src() + " " + report + ")(" + vs + ")"
		if want := expected(matched, env); want != nil {
			c.Expect = want.Key()
		} else {
			c.Expect = expectFail
		}
	case "cond":
		c.Src = "cond (" + vs + ") {" + p.src() + ": " + report + ", _: (matched: 0)}"
		if want := expected(matched, env); want != nil {
			c.Expect = want.Key()
		} else {
			c.Expect = model.Tup("matched", 0).Key()
		}
	default:
		// two arms: the first matching one wins
		pg2 := &patGen{t: t, feat: pg.feat}
		p2 := pg2.gen(depth)
		env2 := map[string]*model.V{}
		m2 := p2.match(v, env2)
		c.Src = "cond (" + vs + ") {" + p2.src() + ": 2, " + p.src() + ": 1, _: 0}"
		switch {
		case m2:
			c.Expect = "2"
		case matched:
			c.Expect = "1"
		default:
			c.Expect = "0"
		}
	}
	c.Ctx = ctx
	for f := range pg.feat {
		c.Feature = append(c.Feature, f)
	}
	sort.Strings(c.Feature)
	c.Tags = tagsOf(append(r.vals, v)...)
	classes := []string{"ctx:" + ctx, "origin:" + origin, fmt.Sprintf("matched:%v", matched), "pattern:" + p.kind}
	for _, f := range c.Feature {
		classes = append(classes, "feature:"+f)
	}
	nt := len(c.Feature) > 0 || origin == "near-miss" || patDepth(p) >= 2
	return c, nt, classes
}

func patDepth(p *pat) int {
	d := 0
	for _, it := range p.items {
		if x := patDepth(it); x > d {
			d = x
		}
	}
	if p.kind == "arr" || p.kind == "tup" || p.kind == "dict" {
		d++
	}
	return d
}

func checkPatCase(c patCase) *Failure {
	kind, detail, _ := evalMismatch(c.EvalCase)
	if kind == "" {
		return nil
	}
	sig := valueSig(c.EvalCase, kind)
	for _, f := range c.Feature {
		if f == "dict-fallback-no-rest" && sig == "" {
			sig = "dict-pattern-fallback-ignores-extra"
		}
	}
	if known("C09", sig) {
		return nil
	}
	return mkFailure("C09", "C09/pattern", sig, detail, c)
}

func init() {
	register("C09/pattern", func(raw json.RawMessage) *Failure {
		var c patCase
		if err := json.Unmarshal(raw, &c); err != nil {
			return &Failure{Property: "C09", Check: "C09/pattern", Detail: "bad case: " + err.Error()}
		}
		return checkPatCase(c)
	})
}

func TestC09(t *testing.T) {
	rapid.Check(t, func(t *rapid.T) {
		c, nt, classes := genC09(t)
		stats.Case(nt, c.Src, classes...)
		report(t, checkPatCase(c))
	})
}
