package checks

import (
	"encoding/json"
	"fmt"
	"os"
	"sort"
	"strconv"
	"strings"
	"sync"
	"testing"

	"pgregory.net/rapid"

	"github.com/spf13/afero"

	"github.com/arr-ai/arrai/pkg/importcache"
	"github.com/arr-ai/arrai/rel"
	"github.com/arr-ai/arrai/syntax"

	"verif/model"
	"verif/obs"
)

// C11 — concurrent evaluation over shared values is race-free and gives serial results.
//
// The test binary is built with -race and run with GORACE=halt_on_error=1 and a
// log file: a data race stops the process and the driver turns the report into
// a violation (if both accesses are in arr.ai's own code). Results of every
// goroutine are also compared with the value computed in Go from the inputs.

type raceCase struct {
	Kind       string `json:"kind"` // shared-tuple shared-relation parallel-join parallel-where cold-start
	Expr       string `json:"expr"`
	Goroutines int    `json:"goroutines"`
	Size       int    `json:"size"`
	Seed       int    `json:"seed"`
}

var sharedTupleExprs = []string{"{t}", "t < u", "//str.repr(t)", "{t, u}", "[t] ++ [u]", "t = u", "{t: 1}", "(x: t)", "{t} | {u}", "t.a0", "{t} => .a1", "t + u", "{t}.a0", "t +> u", "{t, u} orderby ."}

var sharedRelExprs = []string{"r <&> s", "r <&- s", "r -&> s", "r --- s", "r where .y > 1", "r => .x", "r orderby .x", "{r, s}", "r nest |y|ys", "//str.repr(r)", "r = s", "r < s", "r rank (k: .y)", "r count"}

func genC11(t *rapid.T) (raceCase, bool, []string) {
	kind := pick(t, "kind", "shared-tuple", "shared-tuple", "shared-relation", "shared-relation", "parallel-join", "parallel-where", "parallel-generic", "shared-import")
	c := raceCase{Kind: kind, Goroutines: pick(t, "n", 2, 4, 8, 16), Seed: rapid.IntRange(0, 1000).Draw(t, "seed")}
	switch kind {
	case "shared-tuple":
		c.Expr = pick(t, "expr", sharedTupleExprs...)
		c.Size = rapid.IntRange(2, 30).Draw(t, "attrs")
	case "shared-relation":
		c.Expr = pick(t, "expr", sharedRelExprs...)
		c.Size = rapid.IntRange(3, 60).Draw(t, "rows")
	case "parallel-join":
		c.Expr = pick(t, "expr", "a <&- b", "a <-- b", "b -&> a", "b --> a", "a <&> b", "a --- b", "a <-> b")
		c.Size = rapid.IntRange(130, 700).Draw(t, "rows")
		c.Goroutines = pick(t, "n", 1, 2, 4)
	case "parallel-generic":
		// a set that is not a relation: GenericSet's own Where/Map
		c.Expr = pick(t, "expr", "n where . % 3 = 0", "n => . * 2", "n where (. = 77 && 1(2)) || . % 2 = 0", "n where . > 5 => . % 10", "n & m", "n | m", "n &~ m", "(n => (@: ., @value: . % 4)) where .@value = 1")
		c.Size = rapid.IntRange(130, 700).Draw(t, "members")
		c.Goroutines = pick(t, "n", 1, 2, 4)
	case "shared-import":
		c.Expr = pick(t, "expr", "//{./m}", "//{./m} + //{./n}", "[//{./n}, //{./m}, //{./n}]", "//{/m}", "//{./sub/k}",
			"//{./bad}", "[//{./m}, //{./viabad}]", "//{./missing}", "//{./failing}")
		c.Size = rapid.IntRange(1, 5).Draw(t, "depth")
	default:
		c.Expr = pick(t, "expr", "a where .y = 1", "a where .x % 3 = 0", "a => .y", "a where (.y = 6 && 1(2)) || .y < 6", "a => (x: .x, z: .x * 2)", "a orderby .x")
		c.Size = rapid.IntRange(130, 700).Draw(t, "rows")
		c.Goroutines = pick(t, "n", 1, 2, 4)
	}
	return c, c.Goroutines >= 4 || c.Size >= 128, []string{"kind:" + kind, fmt.Sprintf("goroutines:%d", c.Goroutines)}
}

// bigRel builds {|x, y| (i, i % 7)} for i < n as a fresh value.
func bigRel(n int) (*model.V, rel.Value) {
	rows := make([]*model.V, n)
	for i := range rows {
		rows[i] = model.Tup("x", i, "y", i%7)
	}
	m := model.SetOf(rows...)
	return m, obs.ToRel(m)
}

// The race detector writes its reports to the file named by GORACE's log_path
// (suffix .<pid>) as they happen and the process carries on; reading what is
// new after a case attributes a report to the case that was running.
var raceLogOffset int64

const arraiPkg = "github.com/arr-ai/arrai/"

func raceLogPath() string {
	for _, f := range strings.Fields(os.Getenv("GORACE")) {
		if strings.HasPrefix(f, "log_path=") {
			return strings.TrimPrefix(f, "log_path=") + "." + strconv.Itoa(os.Getpid())
		}
	}
	return ""
}

// newRaceReports returns the reports written since the last call: owned ones
// (an innermost frame of one of the two conflicting accesses is arr.ai's code)
// and the others (both accesses inside another module: not memory owned by arr.ai).
func newRaceReports() (owned, foreign []string) {
	p := raceLogPath()
	if p == "" {
		return nil, nil
	}
	data, err := os.ReadFile(p)
	if err != nil || int64(len(data)) <= raceLogOffset {
		return nil, nil
	}
	text := string(data[raceLogOffset:])
	raceLogOffset = int64(len(data))
	for _, rep := range strings.Split(text, "==================") {
		if !strings.Contains(rep, "DATA RACE") {
			continue
		}
		sig, own := raceSignature(rep)
		if own {
			owned = append(owned, sig+"\n"+strings.TrimSpace(rep))
		} else {
			foreign = append(foreign, sig)
		}
	}
	return owned, foreign
}

func raceSignature(rep string) (sig string, owned bool) {
	blocks := strings.Split(strings.TrimSpace(rep), "\n\n")
	var tops []string
	for i, b := range blocks {
		if i >= 2 {
			break
		}
		top := "?"
		for _, line := range strings.Split(b, "\n")[1:] {
			fn := strings.TrimSpace(line)
			if fn == "" || strings.HasPrefix(fn, "/") || !strings.Contains(fn, "(") {
				continue
			}
			fn = strings.TrimSuffix(fn, "()")
			if strings.HasPrefix(fn, "runtime.") || strings.HasPrefix(fn, "sync.") || strings.HasPrefix(fn, "sync/atomic.") || strings.HasPrefix(fn, "internal/") {
				continue
			}
			top = fn
			break
		}
		if strings.HasPrefix(top, arraiPkg) {
			owned = true
		}
		tops = append(tops, strings.TrimPrefix(top, arraiPkg))
	}
	sort.Strings(tops)
	if len(tops) == 2 && tops[0] == tops[1] {
		tops = tops[:1]
	}
	return "race@" + strings.Join(tops, "|"), owned
}

func checkRaceCase(c raceCase) *Failure {
	markPendingFor("C11", "C11/race", c)
	defer clearPending()
	fail := func(format string, args ...interface{}) *Failure {
		return mkFailure("C11", "C11/race", "", fmt.Sprintf("%s: %s from %d goroutines (size %d)\n", c.Kind, c.Expr, c.Goroutines, c.Size)+fmt.Sprintf(format, args...), c)
	}
	newRaceReports() // anything reported between cases is not this case's
	f := checkRaceCase1(c, fail)
	owned, foreign := newRaceReports()
	for _, s := range foreign {
		stats.Class("race outside arr.ai's code")
		stats.Note("race detector report with both accesses outside arr.ai's code (not counted): " + s)
	}
	if len(owned) > 0 {
		sig := strings.SplitN(owned[0], "\n", 2)[0]
		if known("C11", sig) {
			return f
		}
		return mkFailure("C11", "C11/race", sig, fmt.Sprintf("%s: %s from %d goroutines (size %d)\ndata race while this case was running (%d report(s)):\n%.6000s", c.Kind, c.Expr, c.Goroutines, c.Size, len(owned), owned[0]), c)
	}
	return f
}

func checkRaceCase1(c raceCase, fail func(string, ...interface{}) *Failure) *Failure {
	if c.Kind == "shared-import" {
		return checkSharedImport(c, fail)
	}
	expr, err := syntax.Compile(obs.Ctx(), syntax.NoPath, c.Expr)
	if err != nil {
		return &Failure{Property: "C11", Check: "C11/race", Detail: "generator produced uncompilable source: " + err.Error()}
	}
	scope := rel.EmptyScope
	var want *model.V // nil: compare goroutines with each other only
	switch c.Kind {
	case "shared-tuple":
		// fresh generic tuples: their lazily cached names/bucket are cold
		mk := func(off int) rel.Value {
			attrs := make([]rel.Attr, c.Size)
			for i := range attrs {
				attrs[i] = rel.NewAttr(fmt.Sprintf("a%d", (i*7+c.Seed)%c.Size), rel.NewNumber(float64(i+off)))
			}
			return rel.NewTuple(attrs...)
		}
		scope = scope.With("t", mk(0)).With("u", mk(1))
	case "shared-relation":
		// relations produced by a join: cold group-by index, non-sorted column layout
		mkRel := func(n, mod int) rel.Value {
			o := obs.EvalScope("a <&> b", map[string]rel.Value{
				"a": obs.ToRel(relOf(n, func(i int) *model.V { return model.Tup("x", i, "k", i%mod) })),
				"b": obs.ToRel(relOf(mod, func(i int) *model.V { return model.Tup("k", i, "y", (i+c.Seed)%5) })),
			})
			return o.Value
		}
		r, s := mkRel(c.Size, 5), mkRel(c.Size/2+2, 4)
		if r == nil || s == nil {
			return &Failure{Property: "C11", Check: "C11/race", Detail: "could not build the shared relations"}
		}
		scope = scope.With("r", r).With("s", s)
	case "parallel-join":
		am, av := bigRel(c.Size)
		bm := model.SetOf(model.Tup("y", 1), model.Tup("y", 3), model.Tup("y", 9))
		scope = scope.With("a", av).With("b", obs.ToRel(bm))
		ha, hb := []string{"x", "y"}, []string{"y"}
		switch c.Expr {
		case "b -&> a":
			want = model.Join("-&>", bm, am, hb, ha)
		case "b --> a":
			want = model.Join("-->", bm, am, hb, ha)
		default:
			want = model.Join(c.Expr[2:5], am, bm, ha, hb)
		}
	case "parallel-generic":
		nm := relOf(c.Size, func(i int) *model.V { return model.Num(float64(i)) })
		mm := relOf(c.Size/2, func(i int) *model.V { return model.Num(float64(3 * i)) })
		scope = scope.With("n", obs.ToRel(nm)).With("m", obs.ToRel(mm))
		num := func(f func(int) bool) *model.V { return model.Filter(nm, func(e *model.V) bool { return f(int(e.N)) }) }
		switch c.Expr {
		case "n where . % 3 = 0":
			want = num(func(i int) bool { return i%3 == 0 })
		case "n => . % 10":
			want = model.MapSet(nm, func(e *model.V) *model.V { return model.Num(float64(int(e.N) % 10)) })
		case "n => . * 2":
			want = model.MapSet(nm, func(e *model.V) *model.V { return model.Num(e.N * 2) })
		case "n where . > 5 => . % 10":
			want = model.MapSet(num(func(i int) bool { return i > 5 }), func(e *model.V) *model.V { return model.Num(float64(int(e.N) % 10)) })
		case "n & m":
			want = model.Intersect(nm, mm)
		case "n | m":
			want = model.Union(nm, mm)
		case "n &~ m":
			want = model.Diff(nm, mm)
		case "(n => (@: ., @value: . % 4)) where .@value = 1":
			want = model.MapSet(num(func(i int) bool { return i%4 == 1 }), func(e *model.V) *model.V { return model.Tup("@", e, "@value", 1) })
		}
	default:
		am, av := bigRel(c.Size)
		scope = scope.With("a", av)
		switch c.Expr {
		case "a where .y = 1":
			want = model.Filter(am, func(e *model.V) bool { y, _ := e.Get("y"); return y.N == 1 })
		case "a where .x % 3 = 0":
			want = model.Filter(am, func(e *model.V) bool { x, _ := e.Get("x"); return int(x.N)%3 == 0 })
		case "a => .y":
			want = model.MapSet(am, func(e *model.V) *model.V { y, _ := e.Get("y"); return y })
		case "a => (x: .x, z: .x * 2)":
			want = model.MapSet(am, func(e *model.V) *model.V { x, _ := e.Get("x"); return model.Tup("x", x, "z", x.N*2) })
		case "a orderby .x":
			items := make([]*model.V, c.Size)
			for i := range items {
				items[i] = model.Tup("x", i, "y", i%7)
			}
			want = model.Arr(0, items...)
		default:
			want = nil // the predicate fails for some elements: every goroutine must get an error
		}
	}
	type result struct {
		key string
		err bool
	}
	results := make([]result, c.Goroutines)
	start := make(chan struct{})
	var wg sync.WaitGroup
	ctx := obs.Ctx()
	for g := 0; g < c.Goroutines; g++ {
		wg.Add(1)
		go func(g int) {
			defer wg.Done()
			<-start
			defer func() {
				if r := recover(); r != nil {
					results[g] = result{key: fmt.Sprintf("panic: %v", r), err: true}
				}
			}()
			v, err := expr.Eval(ctx, scope)
			if err != nil {
				results[g] = result{key: "error", err: true}
				return
			}
			results[g] = result{key: bigKey(v, want)}
		}(g)
	}
	close(start)
	if !callWithin(3*hangBound, wg.Wait) {
		return fail("the evaluations did not all finish")
	}
	for g, r := range results {
		if r.key != results[0].key {
			return fail("goroutine %d got %.300s\nbut goroutine 0 got %.300s", g, r.key, results[0].key)
		}
	}
	if want != nil && results[0].key != bigKey(nil, want) {
		return fail("every goroutine got %.400s\nbut the inputs give %.400s", results[0].key, want.Key())
	}
	if strings.Contains(c.Expr, "1(2)") && !results[0].err {
		return fail("the predicate fails for some rows, but the evaluation returned %.200s", results[0].key)
	}
	// the same evaluation afterwards, alone, must agree (caches were filled concurrently)
	v, err := expr.Eval(ctx, scope)
	after := "error"
	if err == nil {
		after = bigKey(v, want)
	}
	if after != results[0].key && !(results[0].err && err != nil) {
		return fail("evaluated alone afterwards the result is %.300s, concurrently it was %.300s", after, results[0].key)
	}
	return nil
}

// checkSharedImport: goroutines evaluate a program importing the same modules
// through one shared import cache.
func checkSharedImport(c raceCase, fail func(string, ...interface{}) *Failure) *Failure {
	fs := afero.NewMemMapFs()
	chain := "7"
	for i := c.Size; i >= 1; i-- {
		_ = afero.WriteFile(fs, fmt.Sprintf("/d%d.arrai", i), []byte(chain), 0o644)
		chain = fmt.Sprintf("//{./d%d} + 1", i)
	}
	_ = afero.WriteFile(fs, "/go.mod", []byte("module example.com/x\n"), 0o644)
	_ = afero.WriteFile(fs, "/m.arrai", []byte(chain), 0o644)
	_ = afero.WriteFile(fs, "/n.arrai", []byte("//{./m} * 2"), 0o644)
	_ = afero.WriteFile(fs, "/sub/k.arrai", []byte("//{/n} + //{/m}"), 0o644)
	// modules that cannot be imported: every goroutine must get the error (none may wait forever
	// for the one that tried first)
	_ = afero.WriteFile(fs, "/bad.arrai", []byte("1 +"), 0o644)
	_ = afero.WriteFile(fs, "/viabad.arrai", []byte("//{./bad} + 1"), 0o644)
	_ = afero.WriteFile(fs, "/failing.arrai", []byte("let x = 1; (x: x).y"), 0o644)
	m := 7 + c.Size
	want := map[string]string{"//{./m}": fmt.Sprint(m), "//{./m} + //{./n}": fmt.Sprint(3 * m), "//{/m}": fmt.Sprint(m), "//{./sub/k}": fmt.Sprint(3 * m),
		"[//{./n}, //{./m}, //{./n}]": fmt.Sprintf("[%d, %d, %d]", 2*m, m, 2*m)}[c.Expr]
	if want == "" {
		want = "error"
	}
	ctx := importcache.WithNewImportCache(obs.CtxFs(fs, afero.NewMemMapFs()))
	results := make([]string, c.Goroutines)
	start := make(chan struct{})
	var wg sync.WaitGroup
	for g := range results {
		wg.Add(1)
		go func(g int) {
			defer wg.Done()
			<-start
			o := guardEval(func() (rel.Value, error) { return syntax.EvaluateExpr(ctx, "/main.arrai", c.Expr) })
			switch o.Kind {
			case "value":
				results[g] = obs.Repr(o.Value)
			case "panic":
				results[g] = "panic: " + o.Panic
			default:
				results[g] = "error"
			}
		}(g)
	}
	close(start)
	if !callWithin(3*hangBound, wg.Wait) {
		f := fail("the evaluations did not all finish (goroutines waiting for an import that another goroutine is compiling)")
		f.Sig = "hang@importcache.getOrAdd"
		if known("C11", f.Sig) {
			return nil
		}
		return f
	}
	for g, r := range results {
		if r != want {
			return fail("goroutine %d got %.300s, the modules give %s", g, r, want)
		}
	}
	return nil
}

// bigKey is the text two results are compared by: the canonical key of the
// denoted value, or, for a set too large to denote (the observation layer stops
// at 5000 members), its count and which members of the expected set it has.
// bigKey(nil, want) is the key a correct result has.
func bigKey(v rel.Value, want *model.V) string {
	if want == nil || want.K != model.KSet || want.Count() <= 4000 {
		if v == nil {
			return want.Key()
		}
		d, an := obs.Denote(v)
		if len(an) > 0 {
			return d.Key() + " ANOMALY " + an[0]
		}
		return d.Key()
	}
	if v == nil {
		return fmt.Sprintf("set of %d members, %d of the %d expected ones", want.Count(), want.Count(), want.Count())
	}
	s, ok := v.(rel.Set)
	if !ok {
		return "not a set: " + obs.Repr(v)
	}
	has := 0
	for _, e := range want.Elems {
		if s.Has(obs.ToRel(e)) {
			has++
		}
	}
	return fmt.Sprintf("set of %d members, %d of the %d expected ones", s.Count(), has, want.Count())
}

func relOf(n int, row func(i int) *model.V) *model.V {
	rows := make([]*model.V, n)
	for i := range rows {
		rows[i] = row(i)
	}
	return model.SetOf(rows...)
}

func markPendingFor(prop, check string, c interface{}) {
	if p := os.Getenv("VERIF_FAILFILE"); p != "" {
		raw, _ := json.Marshal(c)
		f := Failure{Property: prop, Check: check, Detail: "the process stopped while this case was running (data race report or crash; see the race log)", Case: raw}
		data, _ := json.MarshalIndent(f, "", " ")
		_ = os.WriteFile(p+".pending", data, 0o644)
	}
}

// coldStart hits the lazily initialised globals (standard library scopes,
// decoders, embedded files) from several goroutines at once, as the first thing
// this process does with the evaluator.
func coldStart() *Failure {
	c := raceCase{Kind: "cold-start", Goroutines: 8}
	markPendingFor("C11", "C11/race", c)
	defer clearPending()
	progs := []string{`//str.upper("a")`, `//seq.concat([[1], [2]])`, `//encoding.json.decode("[1]")`, `//eval.eval("1 + 1")`, `//math.pi`, `//os.args`, `//fn.fix`, `{:(//grammar.lang.wbnf):x -> "a";:}`}
	var wg sync.WaitGroup
	errs := make([]string, len(progs))
	for i, p := range progs {
		wg.Add(1)
		go func(i int, p string) {
			defer wg.Done()
			o := obs.Eval(p)
			if o.Kind == "panic" {
				errs[i] = p + ": " + o.String()
			}
		}(i, p)
	}
	if !callWithin(6*hangBound, wg.Wait) {
		return mkFailure("C11", "C11/race", "", "concurrent first use of the standard library did not finish", c)
	}
	for _, e := range errs {
		if e != "" {
			return mkFailure("C11", "C11/race", "", "concurrent first use of the standard library: "+e, c)
		}
	}
	owned, foreign := newRaceReports()
	for _, s := range foreign {
		stats.Note("race detector report with both accesses outside arr.ai's code (not counted): " + s)
	}
	if len(owned) > 0 {
		sig := strings.SplitN(owned[0], "\n", 2)[0]
		if !known("C11", sig) {
			return mkFailure("C11", "C11/race", sig, "data race during concurrent first use of the standard library:\n"+owned[0], c)
		}
	}
	return nil
}

func init() {
	register("C11/race", func(raw json.RawMessage) *Failure {
		var c raceCase
		if err := json.Unmarshal(raw, &c); err != nil {
			return &Failure{Property: "C11", Check: "C11/race", Detail: "bad case: " + err.Error()}
		}
		if c.Kind == "cold-start" {
			return coldStart()
		}
		// repeat: whether two accesses collide depends on the scheduler
		for i := 0; i < 200; i++ {
			if f := checkRaceCase(c); f != nil {
				return f
			}
		}
		return nil
	})
}

func TestC11(t *testing.T) {
	if f := coldStart(); f != nil {
		report(t, f)
	}
	stats.Case(true, "cold-start: 8 goroutines, first use of the standard library", "kind:cold-start")
	for _, c := range c11Regression {
		for i := 0; i < 5; i++ {
			report(t, checkRaceCase(c))
		}
		stats.Passed["regression cases"]++
	}
	rapid.Check(t, func(t *rapid.T) {
		c, nt, classes := genC11(t)
		raw, _ := json.Marshal(c)
		stats.Case(nt, string(raw), classes...)
		// each trial uses fresh values, so cold caches are hit every time
		reps := 3
		if c.Size >= 128 {
			reps = 1
		}
		for i := 0; i < reps; i++ {
			report(t, checkRaceCase(c))
		}
	})
}

// c11Regression: cases that showed a defect once (see known_findings.json,
// fixed entries); run by every shard before the search.
var c11Regression = []raceCase{
	{Kind: "parallel-where", Expr: "a where (.y = 6 && 1(2)) || .y < 6", Goroutines: 1, Size: 600},
	{Kind: "parallel-generic", Expr: "n where (. = 77 && 1(2)) || . % 2 = 0", Goroutines: 1, Size: 600},
}

// TestC11Default runs the parallel kinds at frozen's default threshold
// (FROZEN_CONCURRENCY unset: fan-out from 131072 members).
func TestC11Default(t *testing.T) {
	if os.Getenv("FROZEN_CONCURRENCY") != "" {
		t.Skip("needs the default threshold")
	}
	rapid.Check(t, func(t *rapid.T) {
		c := raceCase{Goroutines: pick(t, "n", 1, 2), Size: rapid.IntRange(131100, 150000).Draw(t, "rows")}
		c.Kind = pick(t, "kind", "parallel-join", "parallel-where", "parallel-generic")
		switch c.Kind {
		case "parallel-join":
			c.Expr = pick(t, "expr", "a <&- b", "b -&> a", "a <-- b")
		case "parallel-where":
			c.Expr = pick(t, "expr", "a where .y = 1", "a where (.y = 6 && 1(2)) || .y < 6", "a => .y")
		default:
			c.Expr = pick(t, "expr", "n where . % 3 = 0", "n where (. = 77 && 1(2)) || . % 2 = 0", "n => . % 10")
		}
		raw, _ := json.Marshal(c)
		stats.Case(true, string(raw), "kind:"+c.Kind, "threshold:default")
		report(t, checkRaceCase(c))
	})
}
