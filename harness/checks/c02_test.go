package checks

import (
	"encoding/json"
	"fmt"
	"testing"

	"pgregory.net/rapid"

	"verif/model"
)

// C02 — equality is extensional; equal values are interchangeable.

type eqCase struct {
	EvalCase
	Same bool `json:"same"`
}

var c02Cfg = gcfg{oddSugar: true, superimposed: true, quotedNames: true}

// eqContext draws a context C[.] and returns its source for a variable name.
func eqContext(t *rapid.T, g gcfg, r *renderer, v *model.V) (func(name string) string, *model.V) {
	x := g.nearMiss(t, func() *model.V {
		if v.K == model.KSet {
			return v
		}
		return model.SetOf(v)
	}())
	xs := r.lit(x)
	var opts []string
	if v.K == model.KSet {
		opts = []string{"union", "inter", "diff", "with", "without", "member", "count", "where", "wrapset", "wraparr", "wraptup", "sub"}
	} else {
		opts = []string{"wrapset", "wraparr", "wraptup", "inset", "dictkey"}
	}
	which := pick(t, "ctx", opts...)
	wrapped := v
	if v.K != model.KSet {
		wrapped = model.SetOf(v)
	}
	return func(n string) string {
		switch which {
		case "union":
			return "(" + n + " | {" + xs + "})"
		case "inter":
			return "(" + n + " & {" + xs + ", 1})"
		case "diff":
			return "(" + n + " &~ {" + xs + "})"
		case "with":
			return "(" + n + " with " + xs + ")"
		case "without":
			return "(" + n + " without " + xs + ")"
		case "member":
			return "(" + xs + " <: " + n + ")"
		case "count":
			return "(" + n + " count)"
		case "where":
			return "(" + n + " where . != " + xs + ")"
		case "sub":
			return "(" + n + " (<=) {" + xs + "})"
		case "wrapset":
			return "{" + n + ", " + xs + "}"
		case "wraparr":
			return "[" + n + ", " + xs + "]"
		case "wraptup":
			return "(a: " + n + ", b: " + xs + ")"
		case "inset":
			return "(" + n + " <: {" + xs + ", 0})"
		default:
			return "({" + n + ": 1, " + "1000: 2} where .@ != 1000)"
		}
	}, model.With(wrapped, x)
}

func genC02(t *rapid.T) (eqCase, bool, []string) {
	g := c02Cfg
	depth := 2
	if thorough() {
		depth = 3
	}
	r := newRenderer(t)
	var d *model.V
	if chance(t, "isrel", 12) {
		// relations (alone or wrapped) are where storage layouts differ most
		d = g.genSetKind(t, "rel", depth)
		if chance(t, "wrap", 30) {
			d = model.Tup("c", d)
		}
	} else if chance(t, "isset", 75) {
		d, _ = g.genSet(t, depth)
	} else {
		d = g.genVal(t, depth)
	}
	same := chance(t, "same", 55)
	d2 := d
	if !same {
		d2 = g.mutate(t, d)
	}
	pctA, pctB := pick(t, "pa", 0, 40, 70), pick(t, "pb", 40, 70)
	p1 := r.deep(g, d, pctA)
	nformsA := len(r.forms)
	if chance(t, "preferjoin", 40) {
		// relations built by a join have a column layout of their own
		r.prefer = "join-split"
	}
	p2 := r.deep(g, d2, pctB)
	r.prefer = ""
	ctx, ctxVal := eqContext(t, g, r, d)
	src := fmt.Sprintf("let a = %s; let b = %s; (eq: a = b, ne: a != b, rev: b = a, cnt: {a, b} count, key: {a: 1}(b)?:0, "+
		"repr: //str.repr(a) = //str.repr(b), ctx: %s = %s, ctxrepr: //str.repr(%s) = //str.repr(%s))",
		p1, p2, ctx("a"), ctx("b"), ctx("a"), ctx("b"))
	var expect *model.V
	c := eqCase{Same: same}
	if same {
		expect = model.Tup("eq", true, "ne", false, "rev", true, "cnt", 1, "key", 1, "repr", true, "ctx", true, "ctxrepr", true)
		c.Src = src
	} else {
		// unequal values: only the equality facts are determined
		c.Src = fmt.Sprintf("let a = %s; let b = %s; (eq: a = b, ne: a != b, rev: b = a, cnt: {a, b} count, key: {a: 1}(b)?:0, repr: //str.repr(a) = //str.repr(b))", p1, p2)
		expect = model.Tup("eq", false, "ne", true, "rev", false, "cnt", 2, "key", 0, "repr", false)
	}
	c.Expect = expect.Key()
	c.Tags = tagsOf(append(r.vals, d, d2, ctxVal, model.SetOf(d, d2))...)
	classes := append([]string{"kind:" + reprKind(d), fmt.Sprintf("same:%v", same)}, r.formList()...)
	for _, tg := range c.Tags {
		classes = append(classes, "tag:"+tg)
	}
	nt := d.K != model.KNum && len(r.forms) >= 2 && (nformsA != len(r.forms) || pctA > 0)
	return c, nt, classes
}

func checkEqCase(c eqCase) *Failure {
	kind, detail, _ := evalMismatch(c.EvalCase)
	if kind == "" {
		return nil
	}
	sig := valueSig(c.EvalCase, kind)
	if known("C02", sig) {
		return nil
	}
	return mkFailure("C02", "C02/eq", sig, detail, c)
}

func init() {
	register("C02/eq", func(raw json.RawMessage) *Failure {
		var c eqCase
		if err := json.Unmarshal(raw, &c); err != nil {
			return &Failure{Property: "C02", Check: "C02/eq", Detail: "bad case: " + err.Error()}
		}
		return checkEqCase(c)
	})
}

func TestC02(t *testing.T) {
	rapid.Check(t, func(t *rapid.T) {
		c, nt, classes := genC02(t)
		stats.Case(nt, c.Src, classes...)
		report(t, checkEqCase(c))
	})
}
