package checks

import (
	"encoding/json"
	"fmt"
	"strings"
	"testing"

	"pgregory.net/rapid"

	"verif/obs"
)

// C08 — documented source-level equivalences preserve meaning (metamorphic:
// both renderings of one AST are evaluated by the real evaluator).

type equivCase struct {
	A       string   `json:"a"`
	B       string   `json:"b"`
	Rewrite []string `json:"rewrite"`
}

func genC08(t *rapid.T) (equivCase, bool, []string) {
	depth := 3
	if thorough() {
		depth = 4
	}
	g := &pgen{t: t}
	if chance(t, "illtypedcase", 15) {
		// programs that fail must fail in every rendering too
		g.illTyped = 8
	}
	want := ty(rapid.IntRange(0, 5).Draw(t, "ty"))
	ast := g.gen(want, depth, nil)
	base := &style{t: t, tag: "a:"}
	st := &style{t: t, tag: "b:"}
	var rewrites []string
	ast2 := ast
	for _, rw := range []string{"parens", "noise", "let-forms", "dot-forms", "spelled", "inline-let", "poison-unselected"} {
		if !chance(t, "rw:"+rw, 35) {
			continue
		}
		switch rw {
		case "parens":
			st.fullParen = true
		case "noise":
			st.noise = true
		case "let-forms":
			st.letForms = true
		case "dot-forms":
			st.dotForms = true
		case "spelled":
			st.spelled = true
		case "inline-let":
			if g.illTyped > 0 {
				// dropping an unused binding whose value fails is not an equivalence
				continue
			}
			ast2 = inlineLets(t, ast2, 60)
		case "poison-unselected":
			var n int
			ast2, n = poisonUnselected(t, ast2)
			if n == 0 {
				continue
			}
		}
		rewrites = append(rewrites, rw)
	}
	if len(rewrites) == 0 {
		st.fullParen = true
		rewrites = append(rewrites, "parens")
	}
	c := equivCase{A: base.program(ast), B: st.program(ast2), Rewrite: rewrites}
	classes := []string{fmt.Sprintf("ops:%d", min(g.ops/3*3, 12))}
	for _, rw := range rewrites {
		classes = append(classes, "rewrite:"+rw)
	}
	return c, g.ops >= 2 && c.A != c.B, classes
}

func outcomeClass(o obs.Outcome) string {
	if o.Kind == "value" {
		return "value"
	}
	return "fails"
}

func checkEquivCase(c equivCase) (*Failure, string) {
	a := obs.EvalTimeout(obs.Ctx(), c.A, hangBound)
	b := obs.EvalTimeout(obs.Ctx(), c.B, hangBound)
	detail := func(msg string) *Failure {
		return mkFailure("C08", "C08/equiv", "", fmt.Sprintf("rewrites: %s\nprogram A: %s\nprogram B: %s\n%s\nA: %s\nB: %s",
			strings.Join(c.Rewrite, ", "), c.A, c.B, msg, a, b), c)
	}
	if a.Kind == "hang" || b.Kind == "hang" {
		return detail("one of the programs did not finish"), "hang"
	}
	ca, cb := outcomeClass(a), outcomeClass(b)
	if ca != cb {
		return detail("one rendering evaluates, the other fails"), ca + "/" + cb
	}
	if ca == "fails" {
		return nil, "both-fail"
	}
	if !a.Value.Equal(b.Value) || !b.Value.Equal(a.Value) || obs.Repr(a.Value) != obs.Repr(b.Value) {
		return detail("the two renderings evaluate to different values"), "differ"
	}
	return nil, "both-value"
}

func init() {
	register("C08/equiv", func(raw json.RawMessage) *Failure {
		var c equivCase
		if err := json.Unmarshal(raw, &c); err != nil {
			return &Failure{Property: "C08", Check: "C08/equiv", Detail: "bad case: " + err.Error()}
		}
		f, _ := checkEquivCase(c)
		return f
	})
}

func TestC08(t *testing.T) {
	rapid.Check(t, func(t *rapid.T) {
		c, nt, classes := genC08(t)
		f, outcome := checkEquivCase(c)
		stats.Case(nt && outcome == "both-value", c.A+" ≡ "+c.B, append(classes, "outcome:"+outcome)...)
		report(t, f)
	})
}
