package checks

import (
	"encoding/json"
	"fmt"
	"strings"
	"testing"

	"pgregory.net/rapid"

	"verif/model"
)

// C03 — values are immutable: deriving new values never changes existing ones.
//
// A history is a chain of let bindings; each new value is derived from one or
// two earlier ones (the same parent is extended several times in different
// ways) and every value ever bound is reported at the very end, after all
// derivations have run. The reference model computes each value on its own.

type histCase struct {
	EvalCase
	Steps []string `json:"steps"`
}

var c03Cfg = gcfg{oddSugar: false, superimposed: false, quotedNames: false}

type histVal struct {
	name string
	v    *model.V
	kind string // str bytes arr dict rel other
}

func seqKindOf(v *model.V) string {
	if sv, ok := v.AsSeq(); ok {
		return map[string]string{"@char": "str", "@byte": "bytes", "@item": "arr"}[sv.Attr]
	}
	if _, ok := v.AsDict(); ok {
		return "dict"
	}
	if h, ok := model.Heading(v); ok && len(v.Elems) > 0 && len(h) > 0 {
		if _, sugar := v.Elems0SugarAttr(); !sugar {
			return "rel"
		}
	}
	return "other"
}

// clean reports that none of the values has a shape the open known findings
// (superimposed index, sparse bytes, odd sugar tuples) make unrepresentable.
func clean(vs ...*model.V) bool {
	for _, tg := range tagsOf(vs...) {
		switch tg {
		case "superimposed", "bytes-sparse", "odd-sugar", "pinned-sugar-literal":
			return false
		}
	}
	return true
}

func genC03(t *rapid.T) (histCase, bool, []string) {
	g := c03Cfg
	r := newRenderer(t)
	maxSteps := 10
	if thorough() {
		maxSteps = 20
	}
	var pool []histVal
	var lets []string
	var steps []string
	add := func(src string, v *model.V, step string) {
		name := fmt.Sprintf("v%d", len(pool))
		pool = append(pool, histVal{name, v, seqKindOf(v)})
		lets = append(lets, "let "+name+" = "+src+";")
		steps = append(steps, step)
	}
	// seeds
	nseeds := rapid.IntRange(1, 3).Draw(t, "nseeds")
	for i := 0; i < nseeds; i++ {
		kind := pick(t, "seedkind", "str", "str", "bytes", "bytes", "arr", "arr", "dict", "rel", "rel")
		var v *model.V
		if kind == "rel" {
			h := []string{"a", "b"}
			if chance(t, "h3", 40) {
				h = []string{"a", "b", "c"}
			}
			v = genRows(t, h, rapid.IntRange(1, 4).Draw(t, "nrows"), 0, 2)
		} else {
			v = g.genSetKind(t, kind, 1)
		}
		if !clean(v) {
			v = model.Str(0, "abc")
		}
		add(r.lit(v), v, "seed:"+kind)
	}
	nsteps := rapid.IntRange(2, maxSteps).Draw(t, "nsteps")
	appendToParent := map[string]int{}
	withAfterWithout := false
	for s := 0; s < nsteps; s++ {
		// prefer older values as parents so that they branch
		pi := rapid.IntRange(0, len(pool)-1).Draw(t, "parent")
		if chance(t, "oldparent", 40) {
			pi = rapid.IntRange(0, min(len(pool)-1, nseeds)).Draw(t, "oldp")
		}
		p := pool[pi]
		var src, step string
		var res *model.V
		sv, isSeq := p.v.AsSeq()
		switch {
		case isSeq:
			attr := sv.Attr
			elem := func() *model.V {
				switch attr {
				case "@char":
					return model.Num(float64(pick(t, "char", 'x', 'y', 'z')))
				case "@byte":
					return model.Num(float64(pick(t, "byte", 7, 8, 9)))
				}
				return genNum(t, "item")
			}
			end := sv.Off + len(sv.Items)
			op := pick(t, "seqop", "append", "append", "append", "prepend", "dropfirst", "droplast", "droplast", "concat", "union-end", "offset", "map", "where", "trimsuffix", "diff-last", "intersect")
			switch op {
			case "append":
				x := model.Tup("@", end, attr, elem())
				src, res = p.name+" with "+r.lit(x), model.With(p.v, x)
				appendToParent[p.name]++
				if strings.HasPrefix(steps[pi], "droplast") || strings.HasPrefix(steps[pi], "trimsuffix") || strings.HasPrefix(steps[pi], "diff-last") {
					withAfterWithout = true
				}
			case "prepend":
				x := model.Tup("@", sv.Off-1, attr, elem())
				src, res = p.name+" with "+r.lit(x), model.With(p.v, x)
			case "dropfirst":
				x := model.Tup("@", sv.Off, attr, sv.Items[0])
				src, res = p.name+" without "+r.lit(x), model.Without(p.v, x)
			case "droplast":
				x := model.Tup("@", end-1, attr, sv.Items[len(sv.Items)-1])
				src, res = p.name+" without "+r.lit(x), model.Without(p.v, x)
			case "diff-last":
				x := model.Tup("@", end-1, attr, sv.Items[len(sv.Items)-1])
				src, res = p.name+" &~ {"+r.lit(x)+"}", model.Without(p.v, x)
			case "concat":
				b := model.Seq(attr, 0, elem(), elem())
				src, res = p.name+" ++ "+r.lit(b), model.Union(p.v, shiftF(b, float64(p.v.Count())))
				appendToParent[p.name]++
			case "union-end":
				b := model.Seq(attr, end, elem())
				src, res = p.name+" | "+r.lit(b), model.Union(p.v, b)
				appendToParent[p.name]++
			case "offset":
				d := pick(t, "d", -1, 1, 2)
				src, res = fmt.Sprintf("%s\\%s", model.SrcNum(float64(d)), p.name), model.Shift(p.v, d)
			case "map":
				if attr == "@item" {
					src, res = p.name+" >> [.]", model.MapValues(p.v, func(k, x *model.V) *model.V { return model.Arr(0, x) })
				} else {
					src, res = p.name+" >> .", p.v
				}
			case "where":
				k := sv.Off + len(sv.Items)/2
				src = fmt.Sprintf("%s where .@ < %d", p.name, k)
				res = model.Filter(p.v, func(e *model.V) bool { at, _ := e.Get("@"); return at.N < float64(k) })
			case "trimsuffix":
				if sv.Off == 0 && sv.Holes == 0 && len(sv.Items) >= 2 {
					last := model.Seq(attr, 0, sv.Items[len(sv.Items)-1])
					src = "//seq.trim_suffix(" + r.lit(last) + ", " + p.name + ")"
					res = model.Seq(attr, 0, sv.Items[:len(sv.Items)-1]...)
				}
			case "intersect":
				x := model.Tup("@", sv.Off, attr, sv.Items[0])
				src, res = p.name+" & {"+r.lit(x)+", 5}", model.SetOf(x)
			}
			step = op + ":" + p.kind
		case p.kind == "dict":
			kv, _ := p.v.AsDict()
			op := pick(t, "dictop", "with", "without", "union", "map")
			switch op {
			case "with":
				x := model.Tup("@", genSmallInt(t, "k", 5, 8), "@value", genNum(t, "v"))
				src, res = p.name+" with "+r.lit(x), model.With(p.v, x)
			case "without":
				x := model.Tup("@", kv[0][0], "@value", kv[0][1])
				src, res = p.name+" without "+r.lit(x), model.Without(p.v, x)
			case "union":
				b := model.Dict(genSmallInt(t, "k", 5, 8), genNum(t, "v"))
				src, res = p.name+" | "+r.lit(b), model.Union(p.v, b)
			case "map":
				src, res = p.name+" >> {.}", model.MapValues(p.v, func(k, x *model.V) *model.V { return model.SetOf(x) })
			}
			step = op + ":dict"
		case p.kind == "rel":
			h, _ := model.Heading(p.v)
			op := pick(t, "relop", "with", "with", "union", "without", "join", "join", "join", "where", "nest")
			row := func() *model.V {
				m := map[string]*model.V{}
				for _, a := range h {
					m[a] = genSmallInt(t, "cell", 0, 3)
				}
				return model.TupMap(m)
			}
			switch op {
			case "with":
				x := row()
				src, res = p.name+" with "+r.lit(x), model.With(p.v, x)
			case "union":
				x := row()
				src, res = p.name+" | {"+r.lit(x)+"}", model.With(p.v, x)
			case "without":
				x := p.v.Elems[0]
				src, res = p.name+" without "+r.lit(x), model.Without(p.v, x)
			case "join":
				// join with a small relation that adds one fresh attribute, either
				// matching on a or as a cross product; joins of joins branch too
				var fresh string
				for _, n := range []string{"z", "y", "x", "w", "u"} {
					if !inNamesList(h, n) {
						fresh = n
						break
					}
				}
				if chance(t, "otherfresh", 50) {
					for _, n := range []string{"u", "w", "x", "y", "z"} {
						if !inNamesList(h, n) {
							fresh = n
							break
						}
					}
				}
				if fresh == "" {
					break
				}
				if inNamesList(h, "a") && chance(t, "onA", 60) {
					xh := []string{"a", fresh}
					x := model.SetOf(model.Tup("a", 0, fresh, 7), model.Tup("a", 1, fresh, 8), model.Tup("a", 3, fresh, 9))
					src, res = p.name+" <&> {|a, "+fresh+"| (0, 7), (1, 8), (3, 9)}", model.Join("<&>", p.v, x, h, xh)
				} else {
					xh := []string{fresh}
					x := model.SetOf(model.Tup(fresh, 4))
					src, res = p.name+" <&> {|"+fresh+"| (4)}", model.Join("<&>", p.v, x, h, xh)
				}
			case "where":
				src = p.name + " where .a != 1"
				if inNamesList(h, "a") {
					res = model.Filter(p.v, func(e *model.V) bool { a, _ := e.Get("a"); return a.N != 1 })
				} else {
					src = ""
				}
			case "nest":
				if len(h) >= 2 && !inNamesList(h, "n") {
					last := h[len(h)-1]
					src, res = p.name+" nest |"+last+"|n", model.Nest(p.v, h, []string{last}, "n")
				}
			}
			step = op + ":rel"
		}
		if src == "" || res == nil || !clean(res) || len(res.Elems) == 0 {
			continue
		}
		add(src, res, step)
	}
	names := make([]string, len(pool))
	items := make([]*model.V, len(pool))
	for i, p := range pool {
		names[i], items[i] = p.name, p.v
	}
	c := histCase{Steps: steps}
	c.Src = strings.Join(lets, " ") + " [" + strings.Join(names, ", ") + "]"
	c.Expect = model.Arr(0, items...).Key()
	c.Tags = tagsOf(append(r.vals, items...)...)
	branch := false
	for _, n := range appendToParent {
		if n >= 2 {
			branch = true
		}
	}
	classes := []string{fmt.Sprintf("steps:%d", min(len(steps)/4*4, 16))}
	seenStep := map[string]bool{}
	for _, s := range steps {
		if !seenStep[s] {
			seenStep[s] = true
			classes = append(classes, "step:"+s)
		}
	}
	if branch {
		classes = append(classes, "branching-append")
	}
	if withAfterWithout {
		classes = append(classes, "append-after-drop")
	}
	return c, branch || withAfterWithout, classes
}

func checkHistCase(c histCase) *Failure {
	kind, detail, _ := evalMismatch(c.EvalCase)
	if kind == "" {
		return nil
	}
	sig := valueSig(c.EvalCase, kind)
	if known("C03", sig) {
		return nil
	}
	return mkFailure("C03", "C03/history", sig, detail+"\nsteps: "+strings.Join(c.Steps, ", "), c)
}

func init() {
	register("C03/history", func(raw json.RawMessage) *Failure {
		var c histCase
		if err := json.Unmarshal(raw, &c); err != nil {
			return &Failure{Property: "C03", Check: "C03/history", Detail: "bad case: " + err.Error()}
		}
		return checkHistCase(c)
	})
}

func TestC03(t *testing.T) {
	rapid.Check(t, func(t *rapid.T) {
		c, nt, classes := genC03(t)
		stats.Case(nt, c.Src, classes...)
		report(t, checkHistCase(c))
	})
}
