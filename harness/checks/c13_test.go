package checks

import (
	"bytes"
	"encoding/json"
	"fmt"
	"math"
	"reflect"
	"sort"
	"strings"
	"testing"

	"gopkg.in/yaml.v3"
	"pgregory.net/rapid"

	"github.com/arr-ai/arrai/rel"

	"verif/model"
	"verif/obs"
)

// C13 — data codecs round-trip: JSON, YAML, CSV, bits and the server wire format.

type codecCase struct {
	Codec string `json:"codec"` // json yaml csv bits-set bits-mask wire json-any
	// Doc is the document text (json/yaml), Matrix the csv rows, N / Set the bits
	// operands, Value the model key of a data value (wire, json-any).
	Doc    string     `json:"doc,omitempty"`
	Matrix [][]string `json:"matrix,omitempty"`
	N      float64    `json:"n,omitempty"`
	Set    []int      `json:"set,omitempty"`
	Value  string     `json:"value,omitempty"`
	Tags   []string   `json:"tags,omitempty"`
	// Enc / Dec: which spelling of the strict encoder/decoder to use (default .encode / .decode)
	Enc string `json:"enc,omitempty"`
	Dec string `json:"dec,omitempty"`
}

var docStrings = []string{"", "a", "x y", "é", "😀", "\"q\"", "back\\slash", "line\nbreak", "tab\t", "null", "true", "1", "1.5", "-", ": ", "#c", "[", "{a}", " lead", "trail ", "'", " ", " ", "\x01"}

func genDoc(t *rapid.T, depth int) interface{} {
	k := rapid.IntRange(0, 9).Draw(t, "dockind")
	if depth <= 0 && k > 5 {
		k = k % 6
	}
	switch k {
	case 0:
		return nil
	case 1:
		return chance(t, "bool", 50)
	case 2:
		return float64(rapid.IntRange(-5, 1000).Draw(t, "int"))
	case 3:
		return pick(t, "num", 0.5, -2.25, 1e10, 9007199254740991.0, 1e21, 1.5e-7, 123456.789, 0.1, 1e300, -1e19)
	case 4, 5:
		return pick(t, "str", docStrings...)
	case 6, 7:
		n := rapid.IntRange(0, 3).Draw(t, "alen")
		a := make([]interface{}, n)
		for i := range a {
			a[i] = genDoc(t, depth-1)
		}
		return a
	default:
		n := rapid.IntRange(0, 3).Draw(t, "olen")
		o := map[string]interface{}{}
		for i := 0; i < n; i++ {
			o[pick(t, "key", "a", "b", "k 1", "", "é", "0", "null", "x.y")] = genDoc(t, depth-1)
		}
		return o
	}
}

// noisyJSON renders doc with varied but equivalent JSON spellings.
func noisyJSON(t *rapid.T, doc interface{}) string {
	switch d := doc.(type) {
	case nil:
		return "null"
	case bool:
		return fmt.Sprint(d)
	case float64:
		if d == math.Trunc(d) && math.Abs(d) < 1e6 && chance(t, "numform", 30) {
			return pick(t, "nf", fmt.Sprintf("%.1f", d), fmt.Sprintf("%de0", int(d)), fmt.Sprintf("%d", int(d)))
		}
		b, _ := json.Marshal(d)
		return string(b)
	case string:
		if chance(t, "uescape", 25) {
			var sb strings.Builder
			sb.WriteByte('"')
			for _, r := range d {
				if r < 0x10000 {
					fmt.Fprintf(&sb, `\u%04x`, r)
				} else {
					r -= 0x10000
					fmt.Fprintf(&sb, `\u%04x\u%04x`, 0xd800+(r>>10), 0xdc00+(r&0x3ff))
				}
			}
			sb.WriteByte('"')
			return sb.String()
		}
		b, _ := json.Marshal(d)
		return string(b)
	case []interface{}:
		parts := make([]string, len(d))
		for i, x := range d {
			parts[i] = noisyJSON(t, x)
		}
		return "[" + pick(t, "ws", "", " ", "\n\t") + strings.Join(parts, pick(t, "sep", ",", ", ", " ,\n")) + "]"
	case map[string]interface{}:
		keys := make([]string, 0, len(d))
		for k := range d {
			keys = append(keys, k)
		}
		sort.Strings(keys)
		parts := make([]string, len(keys))
		for i, k := range keys {
			kb, _ := json.Marshal(k)
			parts[i] = string(kb) + pick(t, "colon", ":", ": ", " : ") + noisyJSON(t, d[k])
		}
		return "{" + strings.Join(parts, pick(t, "sep", ",", ", ", ",\n  ")) + "}"
	}
	panic("noisyJSON")
}

func docDepth(doc interface{}) int {
	switch d := doc.(type) {
	case []interface{}:
		m := 0
		for _, x := range d {
			if y := docDepth(x); y > m {
				m = y
			}
		}
		return m + 1
	case map[string]interface{}:
		m := 0
		for _, x := range d {
			if y := docDepth(x); y > m {
				m = y
			}
		}
		return m + 1
	}
	return 0
}

func genC13(t *rapid.T) (codecCase, bool, []string) {
	codec := pick(t, "codec", "json", "json", "json", "yaml", "yaml", "csv", "csv", "bits-set", "bits-mask", "wire", "wire", "json-any")
	c := codecCase{Codec: codec}
	classes := []string{"codec:" + codec}
	nt := true
	switch codec {
	case "json":
		doc := genDoc(t, 3)
		if chance(t, "noisy", 50) {
			c.Doc = noisyJSON(t, doc)
			classes = append(classes, "json:noisy")
		} else {
			b, _ := json.Marshal(doc)
			c.Doc = string(b)
		}
		// configured codecs whose configuration leaves strictness at its default (or states it)
		c.Enc = pick(t, "enc", ".encode", ".encode", ".encoder(())", ".encoder((indent: '  '))", ".encoder((escapeHTML: false))", ".encoder((strict: true))", ".encode_indent")
		c.Dec = pick(t, "dec", ".decode", ".decode", ".decoder(())", ".decoder((strict: true))")
		classes = append(classes, "enc:"+c.Enc, "dec:"+c.Dec)
		nt = docDepth(doc) >= 2 || strings.Contains(c.Doc, "null") || strings.Contains(c.Doc, `""`) || strings.Contains(c.Doc, "[]") || strings.Contains(c.Doc, "{}")
	case "yaml":
		doc := genDoc(t, 3)
		c.Enc = pick(t, "enc", ".encode", ".encode", ".encoder(())", ".encoder((strict: true))")
		c.Dec = pick(t, "dec", ".decode", ".decode", ".decoder(())", ".decoder((strict: true))")
		classes = append(classes, "enc:"+c.Enc, "dec:"+c.Dec)
		b, err := yaml.Marshal(doc)
		if err != nil {
			b = []byte("null\n")
		}
		c.Doc = string(b)
		if chance(t, "flow", 30) {
			// JSON is YAML
			jb, _ := json.Marshal(doc)
			c.Doc = string(jb)
			classes = append(classes, "yaml:flow")
		}
		nt = docDepth(doc) >= 2
	case "csv":
		rows := rapid.IntRange(0, 4).Draw(t, "rows")
		cols := rapid.IntRange(1, 3).Draw(t, "cols")
		for i := 0; i < rows; i++ {
			row := make([]string, cols)
			for j := range row {
				row[j] = pick(t, "field", "", "a", "b c", "x,y", `q"q`, "l1\nl2", " lead", "trail ", "é", "#c", "a\r\nb", "\"", ",", "1")
			}
			c.Matrix = append(c.Matrix, row)
		}
		nt = false
		for _, row := range c.Matrix {
			for _, f := range row {
				if strings.ContainsAny(f, ",\"\n\r") {
					nt = true
				}
			}
		}
		// findings keyed on the input, not on the outcome
		for _, row := range c.Matrix {
			if len(row) == 1 && row[0] == "" {
				c.Tags = append(c.Tags, "csv-blank-record")
			}
			for _, f := range row {
				if strings.Contains(f, "\r") {
					c.Tags = append(c.Tags, "csv-cr-in-field")
				}
			}
		}
	case "bits-set":
		c.N = float64(rapid.Uint64Range(0, 1<<53-1).Draw(t, "n"))
		if chance(t, "small", 40) {
			c.N = float64(rapid.IntRange(0, 300).Draw(t, "small"))
		}
	case "bits-mask":
		n := rapid.IntRange(0, 8).Draw(t, "nbits")
		seen := map[int]bool{}
		for i := 0; i < n; i++ {
			b := rapid.IntRange(0, 52).Draw(t, "bit")
			if !seen[b] {
				seen[b] = true
				c.Set = append(c.Set, b)
			}
		}
		sort.Ints(c.Set)
	default: // wire, json-any
		g := gcfg{oddSugar: true, superimposed: false, quotedNames: true}
		v := g.genVal(t, 3)
		c.Value = v.Key()
		c.Tags = tagsOf(v)
		classes = append(classes, "kind:"+reprKind(v))
		nt = v.Depth() >= 2
	}
	for _, tg := range c.Tags {
		classes = append(classes, "tag:"+tg)
	}
	return c, nt, classes
}

func jsonEqual(a, b interface{}) bool {
	return reflect.DeepEqual(normJSON(a), normJSON(b))
}

func normJSON(x interface{}) interface{} {
	switch d := x.(type) {
	case int:
		return float64(d)
	case int64:
		return float64(d)
	case uint64:
		return float64(d)
	case []interface{}:
		out := make([]interface{}, len(d))
		for i, y := range d {
			out[i] = normJSON(y)
		}
		return out
	case map[string]interface{}:
		out := map[string]interface{}{}
		for k, y := range d {
			out[k] = normJSON(y)
		}
		return out
	case map[interface{}]interface{}:
		out := map[string]interface{}{}
		for k, y := range d {
			out[fmt.Sprint(k)] = normJSON(y)
		}
		return out
	}
	return x
}

func bytesOf(v rel.Value) ([]byte, bool) {
	switch b := v.(type) {
	case rel.Bytes:
		return b.Bytes(), true
	case rel.String:
		return []byte(b.String()), true
	}
	if s, ok := v.(rel.Set); ok && !s.IsTrue() {
		return nil, true
	}
	return nil, false
}

func checkCodecCase(c codecCase) *Failure {
	fail := func(sig, format string, args ...interface{}) *Failure {
		if known("C13", sig) {
			return nil
		}
		return mkFailure("C13", "C13/codec", sig, fmt.Sprintf(format, args...), c)
	}
	tagSig := ""
	for _, tg := range c.Tags {
		switch tg {
		case "csv-blank-record", "csv-cr-in-field":
			tagSig = tg
		case "superimposed":
			tagSig = "seq-superimposed-index"
		case "bytes-sparse":
			tagSig = "bytes-sparse"
		}
	}
	switch c.Codec {
	case "json", "yaml":
		var want interface{}
		if c.Codec == "json" {
			if err := json.Unmarshal([]byte(c.Doc), &want); err != nil {
				return &Failure{Property: "C13", Check: "C13/codec", Detail: "generator produced invalid JSON: " + err.Error()}
			}
		} else if err := yaml.Unmarshal([]byte(c.Doc), &want); err != nil {
			return &Failure{Property: "C13", Check: "C13/codec", Detail: "generator produced invalid YAML: " + err.Error()}
		}
		ns := "//encoding." + c.Codec
		enc, dec := ns+".encode", ns+".decode"
		if c.Enc != "" {
			enc = ns + c.Enc
		}
		if c.Dec != "" {
			dec = ns + c.Dec
		}
		doc := map[string]rel.Value{"d": rel.NewString([]rune(c.Doc))}
		out := obs.EvalScope(enc+"("+dec+"(d))", doc)
		if out.Kind != "value" {
			return fail("", "%s document %q: encode(decode(d)) must give a document; observed %s", c.Codec, c.Doc, out)
		}
		text, ok := bytesOf(out.Value)
		if !ok {
			return fail("", "%s document %q: encode returned %s, not text", c.Codec, c.Doc, obs.Repr(out.Value))
		}
		var got interface{}
		var perr error
		if c.Codec == "json" {
			perr = json.Unmarshal(text, &got)
		} else {
			perr = yaml.Unmarshal(text, &got)
		}
		if perr != nil {
			return fail("", "%s document %q re-encoded as %q, which is not valid %s: %v", c.Codec, c.Doc, text, c.Codec, perr)
		}
		if !jsonEqual(want, got) {
			return fail("", "%s document %q re-encoded as %q: content differs\n  original: %#v\n  re-encoded: %#v", c.Codec, c.Doc, text, normJSON(want), normJSON(got))
		}
		idem := obs.EvalScope("let x = "+dec+"(d); "+dec+"("+enc+"(x)) = x", doc)
		if b, isBool := boolOfOutcome(idem); !isBool || !b {
			return fail("", "%s document %q: decode(encode(decode(d))) = decode(d) does not hold: %s", c.Codec, c.Doc, idem)
		}
	case "csv":
		rows := make([]*model.V, len(c.Matrix))
		for i, row := range c.Matrix {
			cells := make([]*model.V, len(row))
			for j, f := range row {
				cells[j] = model.Str(0, f)
			}
			rows[i] = model.Arr(0, cells...)
		}
		m := model.Arr(0, rows...)
		out := obs.EvalScope("//encoding.csv.decode(//encoding.csv.encode(m))", map[string]rel.Value{"m": obs.ToRel(m)})
		if out.Kind != "value" {
			return fail(tagSig, "csv matrix %q: decode(encode(m)) failed: %s", c.Matrix, out)
		}
		if got, _ := obs.Denote(out.Value); got.Key() != m.Key() {
			return fail(tagSig, "csv matrix %q: decode(encode(m)) returned different rows: %s", c.Matrix, obs.Repr(out.Value))
		}
	case "bits-set":
		out := obs.EvalScope("//bits.mask(//bits.set(n)) = n", map[string]rel.Value{"n": rel.NewNumber(c.N)})
		if b, isBool := boolOfOutcome(out); !isBool || !b {
			return fail("", "//bits.mask(//bits.set(%v)) = %v does not hold: %s", c.N, c.N, out)
		}
		bits := obs.EvalScope("//bits.set(n)", map[string]rel.Value{"n": rel.NewNumber(c.N)})
		if bits.Kind == "value" {
			got, _ := obs.Denote(bits.Value)
			var want []*model.V
			for i := 0; i < 53; i++ {
				if uint64(c.N)&(1<<uint(i)) != 0 {
					want = append(want, model.Num(float64(i)))
				}
			}
			if got.Key() != model.SetOf(want...).Key() {
				return fail("", "//bits.set(%v) = %s, expected the positions of the set bits %s", c.N, obs.Repr(bits.Value), model.SetOf(want...).Key())
			}
		}
	case "bits-mask":
		var ms []*model.V
		for _, b := range c.Set {
			ms = append(ms, model.Num(float64(b)))
		}
		s := model.SetOf(ms...)
		out := obs.EvalScope("//bits.set(//bits.mask(s)) = s", map[string]rel.Value{"s": obs.ToRel(s)})
		if b, isBool := boolOfOutcome(out); !isBool || !b {
			return fail("", "//bits.set(//bits.mask(%s)) = %s does not hold: %s", s.Key(), s.Key(), out)
		}
	case "wire":
		m, err := model.ParseKey(c.Value)
		if err != nil {
			return &Failure{Property: "C13", Check: "C13/codec", Detail: "bad case: " + err.Error()}
		}
		v := obs.ToRel(m)
		if d, an := obs.Denote(v); d.Key() != m.Key() || len(an) > 0 {
			return fail(tagSig, "value %s cannot be built faithfully (%s %v)", m.Key(), d.Key(), an)
		}
		out := obs.Guard(func() (rel.Value, error) { return rel.UnmarshalFromJSON(rel.MarshalToJSON(v)) })
		if out.Kind != "value" {
			return fail(tagSig, "wire format: value %s (%s) does not survive MarshalToJSON/UnmarshalFromJSON: %s", obs.Repr(v), m.Key(), out)
		}
		if got, an := obs.Denote(out.Value); got.Key() != m.Key() || len(an) > 0 || !out.Value.Equal(v) {
			return fail(tagSig, "wire format: value %s serialised as %s deserialises to the different value %s (%s)", obs.Repr(v), rel.MarshalToJSON(v), obs.Repr(out.Value), got.Key())
		}
	case "json-any":
		m, err := model.ParseKey(c.Value)
		if err != nil {
			return &Failure{Property: "C13", Check: "C13/codec", Detail: "bad case: " + err.Error()}
		}
		v := obs.ToRel(m)
		if d, an := obs.Denote(v); d.Key() != m.Key() || len(an) > 0 {
			return fail(tagSig, "value %s cannot be built faithfully (%s %v)", m.Key(), d.Key(), an)
		}
		for _, ns := range []string{"//encoding.json", "//encoding.yaml"} {
			enc := obs.EvalScope(ns+".encode(v)", map[string]rel.Value{"v": v})
			switch enc.Kind {
			case "error":
				continue // rejected: fine
			case "panic":
				return fail("panic@"+enc.Site, "%s.encode(%s) must be rejected with an error, not crash: %s", ns, obs.Repr(v), enc)
			}
			back := obs.EvalScope(ns+".decode(e) = v", map[string]rel.Value{"v": v, "e": enc.Value})
			if b, isBool := boolOfOutcome(back); !isBool || !b {
				text, _ := bytesOf(enc.Value)
				return fail("codec-silently-changes-unrepresentable", "%s.encode(%s) silently produced %q, which does not decode back to the value (%s); values the codec cannot represent must be rejected", ns, obs.Repr(v), bytes.TrimSpace(text), back)
			}
		}
	}
	return nil
}

func boolOfOutcome(o obs.Outcome) (bool, bool) {
	if o.Kind != "value" {
		return false, false
	}
	return boolOf(o.Value)
}

func init() {
	register("C13/codec", func(raw json.RawMessage) *Failure {
		var c codecCase
		if err := json.Unmarshal(raw, &c); err != nil {
			return &Failure{Property: "C13", Check: "C13/codec", Detail: "bad case: " + err.Error()}
		}
		return checkCodecCase(c)
	})
}

func TestC13(t *testing.T) {
	rapid.Check(t, func(t *rapid.T) {
		c, nt, classes := genC13(t)
		raw, _ := json.Marshal(c)
		stats.Case(nt, string(raw), classes...)
		report(t, checkCodecCase(c))
	})
}
