package checks

import (
	"encoding/json"
	"fmt"
	"strings"
	"testing"
	"time"

	"pgregory.net/rapid"

	"github.com/arr-ai/arrai/rel"

	"verif/model"
	"verif/obs"
)

// C12 — printed values read back as the same value.

type reprCase struct {
	// Value is the model key of the value (built through the exported
	// constructors that literal evaluation uses).
	Value string   `json:"value"`
	Tags  []string `json:"tags,omitempty"`
	// Lit, if set, is a string literal source whose decoding is also checked.
	Lit       string `json:"lit,omitempty"`
	LitExpect string `json:"lit_expect,omitempty"`
	// Src, if set, is a program that computes the value (instead of the
	// constructors), so that it arrives in a computed representation.
	Src string `json:"src,omitempty"`
}

var wideRunes = []rune{'a', 'b', '1', ' ', '\'', '"', '\\', '`', '‵', '\n', '\t', '\r', 0, 1, 7, 0x1b, 0x1f, 0x7f, 0x80, 0xe9, 0x20ac, 0x1f600, 0xfffd, 0xd7ff, 0xe000, '$', '{', '}', ':', 'x', 'u', '0'}

var wideNames = []string{"a", "b", "", "a b", "a'b", `a"b`, `a'"b`, "1a", "@", "@x", "&q", "a.b", "é", "\n", "rec", "x\\y", "@item", "@char", "\x01z", "‵", "$"}

var printableNums = []float64{0, 1, -1, 2, 97, 0.5, -2.25, 1e10, 123456789012, 1e21, 1e-5, 255, 256, 3.14159}

func genWideStr(t *rapid.T) *model.V {
	n := rapid.IntRange(0, 5).Draw(t, "slen")
	rs := make([]rune, n)
	for i := range rs {
		if chance(t, "anyrune", 10) {
			r := rune(rapid.IntRange(0, 0x10ffff).Draw(t, "rune"))
			if r >= 0xd800 && r < 0xe000 {
				r = 0xe9
			}
			rs[i] = r
		} else {
			rs[i] = pick(t, "wr", wideRunes...)
		}
	}
	off := 0
	if chance(t, "off", 25) {
		off = rapid.IntRange(-2, 3).Draw(t, "offv")
	}
	if n >= 3 && chance(t, "hole", 12) {
		rs[rapid.IntRange(1, n-2).Draw(t, "holeat")] = -1
	}
	return model.StrRunes(off, rs)
}

func genWideVal(t *rapid.T, depth int) *model.V {
	k := rapid.IntRange(0, 11).Draw(t, "wkind")
	if depth <= 0 && k > 4 {
		k = k % 5
	}
	switch k {
	case 0, 1:
		return model.Num(pick(t, "num", printableNums...))
	case 2, 3, 4:
		return genWideStr(t)
	case 5, 6: // tuple with arbitrary names
		n := rapid.IntRange(0, 3).Draw(t, "nattrs")
		m := map[string]*model.V{}
		for i := 0; i < n; i++ {
			m[pick(t, "wname", wideNames...)] = genWideVal(t, depth-1)
		}
		v := model.TupMap(m)
		if _, sugar := v.SugarAttr(); sugar {
			return model.Tup("@", 1, "@item", genWideVal(t, depth-1))
		}
		if chance(t, "neg", 10) && len(m) > 0 {
			return model.Tup("@neg", v)
		}
		return v
	case 7: // array with holes/offset
		n := rapid.IntRange(1, 4).Draw(t, "alen")
		items := make([]*model.V, n)
		for i := range items {
			items[i] = genWideVal(t, depth-1)
		}
		if n >= 3 && chance(t, "hole", 30) {
			items[1] = nil
		}
		off := 0
		if chance(t, "off", 30) {
			off = rapid.IntRange(-2, 3).Draw(t, "offv")
		}
		return model.Arr(off, items...)
	case 8: // bytes
		n := rapid.IntRange(1, 4).Draw(t, "blen")
		bs := make([]byte, n)
		for i := range bs {
			bs[i] = byte(pick(t, "byte", 0, 1, 39, 92, 97, 127, 128, 255, 10))
		}
		off := 0
		if chance(t, "off", 30) {
			off = rapid.IntRange(-2, 3).Draw(t, "offv")
		}
		return model.Byt(off, bs)
	case 9: // dict, possibly multi-valued
		n := rapid.IntRange(1, 3).Draw(t, "dlen")
		var kv []*model.V
		for i := 0; i < n; i++ {
			kv = append(kv, genWideVal(t, depth-1), genWideVal(t, depth-1))
		}
		if chance(t, "multi", 30) {
			kv = append(kv, kv[0], genWideVal(t, depth-1))
		}
		return model.Dict(kv...)
	case 10: // relation, sometimes with a sugar-looking heading
		h := []string{"a", pick(t, "h2", "b", "x y", "@foo", "")}
		if chance(t, "sugarh", 25) {
			h = []string{"@", pick(t, "hs", "@item", "@char", "@value")}
		}
		n := rapid.IntRange(1, 3).Draw(t, "rlen")
		var rows []*model.V
		for i := 0; i < n; i++ {
			m := map[string]*model.V{}
			for _, a := range h {
				m[a] = model.Num(pick(t, "cell", 0.5, 1.5, 2.5))
			}
			rows = append(rows, model.TupMap(m))
		}
		return model.SetOf(rows...)
	default: // plain set
		n := rapid.IntRange(0, 4).Draw(t, "setlen")
		var ms []*model.V
		for i := 0; i < n; i++ {
			ms = append(ms, genWideVal(t, depth-1))
		}
		return model.SetOf(ms...)
	}
}

// genStrLit draws the source of a string literal made of raw characters and
// documented escapes, together with the string it must denote.
func genStrLit(t *rapid.T) (string, string) {
	quote := pick(t, "quote", `"`, `'`)
	n := rapid.IntRange(0, 6).Draw(t, "nparts")
	var src, val strings.Builder
	src.WriteString(quote)
	for i := 0; i < n; i++ {
		switch rapid.IntRange(0, 9).Draw(t, "part") {
		case 0, 1, 2:
			c := pick(t, "raw", "a", "b", "1", "0", "7", " ", "é", "€", "x", "u")
			src.WriteString(c)
			val.WriteString(c)
		case 3:
			esc := pick(t, "esc", `\n`, `\t`, `\r`, `\\`, `\'`, `\"`, `\a`, `\b`, `\e`, `\f`, `\v`)
			src.WriteString(esc)
			val.WriteString(map[string]string{`\n`: "\n", `\t`: "\t", `\r`: "\r", `\\`: `\`, `\'`: "'", `\"`: `"`, `\a`: "\a", `\b`: "\b", `\e`: "\x1b", `\f`: "\f", `\v`: "\v"}[esc])
		case 4, 5:
			c := pick(t, "hexv", 0x41, 0x01, 0x7f, 0x30, 0xe9)
			fmt.Fprintf(&src, `\x%02x`, c)
			val.WriteRune(rune(c))
		case 6:
			c := pick(t, "uv", 0x41, 0x20ac, 0xe9)
			fmt.Fprintf(&src, `\u%04x`, c)
			val.WriteRune(rune(c))
		case 7:
			c := pick(t, "Uv", 0x41, 0x1f600)
			fmt.Fprintf(&src, `\U%08x`, c)
			val.WriteRune(rune(c))
		case 8:
			c := pick(t, "octv", 0101, 0007, 0060)
			fmt.Fprintf(&src, `\%03o`, c)
			val.WriteRune(rune(c))
		default:
			other := map[string]string{`"`: "'", "'": `"`}[quote]
			src.WriteString(other)
			val.WriteString(other)
		}
	}
	src.WriteString(quote)
	return src.String(), val.String()
}

func genC12(t *rapid.T) (reprCase, bool, []string) {
	depth := 2
	if thorough() {
		depth = 3
	}
	v := genWideVal(t, depth)
	c := reprCase{Value: v.Key(), Tags: tagsOf(v)}
	classes := []string{"kind:" + reprKind(v)}
	if chance(t, "computed", 20) {
		// a value computed by operators: relations built by joins have a
		// column layout of their own
		g := gcfg{oddSugar: true, superimposed: false, quotedNames: true}
		if chance(t, "relation", 60) {
			h := []string{"a", "b", "c", "d"}[:rapid.IntRange(2, 4).Draw(t, "hn")]
			v = genRows(t, h, rapid.IntRange(1, 3).Draw(t, "nrows"), 0, 2)
		} else {
			v, _ = g.genSet(t, 2)
		}
		r := newRenderer(t)
		r.prefer = "join-split"
		c.Src = r.deep(g, v, 80)
		c.Value = v.Key()
		c.Tags = tagsOf(append(r.vals, v)...)
		classes = append([]string{"kind:" + reprKind(v), "built:computed"}, r.formList()...)
	}
	nt := v.Depth() >= 2
	v.Walk(func(x *model.V) {
		if x.K == model.KTup {
			for _, n := range x.Names {
				if model.SrcName(n) != n {
					nt = true
					classes = append(classes, "quoted-name")
				}
			}
		}
		if sv, ok := x.AsSeq(); ok {
			if sv.Off != 0 || sv.Holes > 0 {
				nt = true
				classes = append(classes, "offset-or-holes")
			}
			if sv.Attr == "@char" {
				for _, it := range sv.Items {
					if it != nil && (it.N < 32 || it.N == '\'' || it.N == '"' || it.N == '\\' || it.N > 126) {
						nt = true
						classes = append(classes, "char-needs-escape")
						break
					}
				}
			}
		}
	})
	if chance(t, "withlit", 35) {
		c.Lit, c.LitExpect = genStrLit(t)
		classes = append(classes, "string-literal")
		if strings.Contains(c.Lit, `\`) {
			nt = true
		}
	}
	for _, tg := range c.Tags {
		classes = append(classes, "tag:"+tg)
	}
	return c, nt, uniq(classes)
}

func uniq(xs []string) []string {
	seen := map[string]bool{}
	var out []string
	for _, x := range xs {
		if !seen[x] {
			seen[x] = true
			out = append(out, x)
		}
	}
	return out
}

func reprSig(c reprCase) string {
	ec := EvalCase{Tags: c.Tags}
	switch {
	case ec.hasTag("superimposed"):
		return "seq-superimposed-index"
	case ec.hasTag("bytes-sparse"):
		return "bytes-sparse"
	case ec.hasTag("dict-multi"):
		return "dict-multi-repr"
	}
	return ""
}

func checkReprCase(c reprCase) *Failure {
	fail := func(sig, format string, args ...interface{}) *Failure {
		if known("C12", sig) {
			return nil
		}
		return mkFailure("C12", "C12/repr", sig, fmt.Sprintf(format, args...), c)
	}
	type res struct{ f *Failure }
	ch := make(chan res, 1)
	go func() { ch <- res{checkReprCase1(c, fail)} }()
	select {
	case r := <-ch:
		return r.f
	case <-time.After(hangBound):
		return fail("", "value %s: printing or reading back did not finish within %v", c.Value, hangBound)
	}
}

func checkReprCase1(c reprCase, fail func(sig, format string, args ...interface{}) *Failure) *Failure {
	sig := reprSig(c)
	m, err := model.ParseKey(c.Value)
	if err != nil {
		return &Failure{Property: "C12", Check: "C12/repr", Detail: "bad case: " + err.Error()}
	}
	built := obs.Guard(func() (rel.Value, error) { return obs.ToRel(m), nil })
	if c.Src != "" {
		built = obs.Eval(c.Src)
	}
	if built.Kind != "value" {
		return fail(sig, "value %s could not be built: %s", m.Key(), built)
	}
	if d, an := obs.Denote(built.Value); d.Key() != m.Key() || len(an) > 0 {
		// the constructors already lose the value: C01/C02's business, not printing
		return fail(sig, "value %s built through NewTuple/NewSet denotes %s %v", m.Key(), d.Key(), an)
	}
	text := obs.Repr(built.Value)
	// //str.repr prints the same text
	viaStd := obs.EvalScope("//str.repr(x)", map[string]rel.Value{"x": built.Value})
	if viaStd.Kind != "value" {
		return fail(sig, "value %s: //str.repr failed: %s", m.Key(), viaStd)
	} else if s, ok := viaStd.Value.(rel.String); (ok && s.String() != text) || (!ok && text != "{}" && text != "''") {
		if !ok || s.String() != text {
			return fail(sig, "value %s: //str.repr gives %q but the shell/eval echo gives %q", m.Key(), obs.Repr(viaStd.Value), text)
		}
	}
	back := obs.Eval(text)
	if back.Kind != "value" {
		return fail(sig, "value %s prints as\n  %s\nwhich does not read back: %s", m.Key(), text, back)
	}
	d, an := obs.Denote(back.Value)
	if d.Key() != m.Key() {
		return fail(sig, "value %s prints as\n  %s\nwhich reads back as the different value\n  %s", m.Key(), text, d.Key())
	}
	if len(an) > 0 {
		return fail(sig, "value %s prints as %s; read back it is inconsistent: %s", m.Key(), text, strings.Join(an, "; "))
	}
	if !back.Value.Equal(built.Value) || !built.Value.Equal(back.Value) {
		return fail(sig, "value %s prints as\n  %s\nwhich reads back as a value that denotes the same but is not Equal to the original (%T vs %T)", m.Key(), text, built.Value, back.Value)
	}
	if text2 := obs.Repr(back.Value); text2 != text {
		return fail(sig, "value %s prints as\n  %s\nbut the value read back prints as\n  %s", m.Key(), text, text2)
	}
	if c.Lit != "" {
		lit := obs.Eval(c.Lit)
		want := model.Str(0, c.LitExpect)
		if lit.Kind != "value" {
			return fail("", "string literal %s must denote %q; observed %s", c.Lit, c.LitExpect, lit)
		}
		if got, _ := obs.Denote(lit.Value); got.Key() != want.Key() {
			return fail("", "string literal %s must denote %q (%s); observed %s = %s", c.Lit, c.LitExpect, want.Key(), obs.Repr(lit.Value), got.Key())
		}
	}
	return nil
}

func init() {
	register("C12/repr", func(raw json.RawMessage) *Failure {
		var c reprCase
		if err := json.Unmarshal(raw, &c); err != nil {
			return &Failure{Property: "C12", Check: "C12/repr", Detail: "bad case: " + err.Error()}
		}
		return checkReprCase(c)
	})
}

func TestC12(t *testing.T) {
	rapid.Check(t, func(t *rapid.T) {
		c, nt, classes := genC12(t)
		stats.Case(nt, c.Value+" "+c.Lit, classes...)
		report(t, checkReprCase(c))
	})
}
