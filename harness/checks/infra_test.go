package checks

import (
	"encoding/json"
	"fmt"
	"hash/fnv"
	"os"
	"path/filepath"
	"sort"
	"strconv"
	"strings"
	"sync"
	"testing"

	"github.com/sirupsen/logrus"
	"pgregory.net/rapid"
)

// ---------------------------------------------------------------------------
// statistics → evidence

type Stats struct {
	mu          sync.Mutex
	Evaluations int            `json:"evaluations"`
	NonTrivial  []uint64       `json:"nontrivial_hashes"`
	Classes     map[string]int `json:"classes"`
	Excluded    map[string]int `json:"known_excluded"`
	Samples     []string       `json:"samples"`
	NTSamples   []string       `json:"nontrivial_samples"`
	Notes       []string       `json:"notes"`
	Passed      map[string]int `json:"passed"`
	nt          map[uint64]struct{}
	notes       map[string]bool
}

var stats = &Stats{Classes: map[string]int{}, Excluded: map[string]int{}, Passed: map[string]int{},
	nt: map[uint64]struct{}{}, notes: map[string]bool{}}

func hash64(s string) uint64 {
	h := fnv.New64a()
	h.Write([]byte(s))
	return h.Sum64()
}

// Case records one generated case. canonical is the text that identifies the
// case (two cases are the same iff their canonical texts are equal).
func (s *Stats) Case(nontrivial bool, canonical string, classes ...string) {
	s.mu.Lock()
	defer s.mu.Unlock()
	s.Evaluations++
	for _, c := range classes {
		if c != "" {
			s.Classes[c]++
		}
	}
	show := canonical
	if len(show) > 600 {
		show = show[:600] + "…"
	}
	if len(s.Samples) < 6 {
		s.Samples = append(s.Samples, show)
	}
	if nontrivial {
		h := hash64(canonical)
		if _, seen := s.nt[h]; !seen {
			s.nt[h] = struct{}{}
			// keep a spread of non-trivial samples: cases number 1,2,4,8,...
			if n := len(s.nt); n&(n-1) == 0 && len(s.NTSamples) < 14 {
				s.NTSamples = append(s.NTSamples, show)
			}
		}
	}
}

func (s *Stats) Class(c string) {
	s.mu.Lock()
	s.Classes[c]++
	s.mu.Unlock()
}

func (s *Stats) Exclude(sig string) {
	s.mu.Lock()
	s.Excluded[sig]++
	s.mu.Unlock()
}

func (s *Stats) Note(n string) {
	s.mu.Lock()
	if !s.notes[n] && len(s.Notes) < 40 {
		s.notes[n] = true
		s.Notes = append(s.Notes, n)
	}
	s.mu.Unlock()
}

func (s *Stats) write(path string) {
	s.mu.Lock()
	defer s.mu.Unlock()
	s.NonTrivial = s.NonTrivial[:0]
	for h := range s.nt {
		s.NonTrivial = append(s.NonTrivial, h)
	}
	sort.Slice(s.NonTrivial, func(i, j int) bool { return s.NonTrivial[i] < s.NonTrivial[j] })
	data, _ := json.Marshal(s)
	_ = os.WriteFile(path, data, 0o644)
}

// ---------------------------------------------------------------------------
// failures → replay files

// Failure describes a violation found by a check. Case is everything needed to
// re-run the oracle without the generator.
type Failure struct {
	Property string          `json:"property"`
	Check    string          `json:"check"`
	Sig      string          `json:"signature,omitempty"`
	Detail   string          `json:"detail"`
	Case     json.RawMessage `json:"case"`
}

func mkFailure(property, check, sig, detail string, c interface{}) *Failure {
	raw, err := json.Marshal(c)
	if err != nil {
		panic(err)
	}
	return &Failure{Property: property, Check: check, Sig: sig, Detail: detail, Case: raw}
}

func failFile() string {
	if p := os.Getenv("VERIF_FAILFILE"); p != "" {
		return p
	}
	return ""
}

type fataler interface {
	Fatalf(format string, args ...interface{})
	Helper()
}

// report persists the failure (the last one written is the one rapid shrank
// to) and fails the test.
func report(t fataler, f *Failure) {
	t.Helper()
	if f == nil {
		return
	}
	if p := os.Getenv("VERIF_SURVEY"); p != "" {
		// development aid: collect failures instead of stopping at the first
		surveyMu.Lock()
		key := f.Check + "|" + f.Sig + "|" + surveyKey(f.Detail)
		if surveySeen[key] < 3 {
			fh, err := os.OpenFile(p, os.O_APPEND|os.O_CREATE|os.O_WRONLY, 0o644)
			if err == nil {
				fmt.Fprintf(fh, "---- %s sig=%s\n%s\ncase: %s\n", f.Check, f.Sig, f.Detail, string(f.Case))
				fh.Close()
			}
		}
		surveySeen[key]++
		surveyMu.Unlock()
		return
	}
	if p := failFile(); p != "" {
		data, _ := json.MarshalIndent(f, "", " ")
		_ = os.WriteFile(p, data, 0o644)
	}
	t.Fatalf("VIOLATION-CANDIDATE property=%s check=%s sig=%s\n%s\ncase: %s", f.Property, f.Check, f.Sig, f.Detail, string(f.Case))
}

// ---------------------------------------------------------------------------
// known findings

type KnownFinding struct {
	Property  string          `json:"property"`
	Signature string          `json:"signature"`
	Also      []string        `json:"also,omitempty"` // other properties whose checks hit the same defect
	Status    string          `json:"status"` // open | fixed
	What      string          `json:"what"`
	Site      string          `json:"site,omitempty"`
	Commit    string          `json:"commit,omitempty"`
	Check     string          `json:"check,omitempty"`
	Witness   json.RawMessage `json:"witness,omitempty"`
}

var (
	kfOnce   sync.Once
	kfList   []KnownFinding
	kfActive map[string]bool
	// kfDisabled makes every signature inactive (used by the witness phase so
	// that the recorded witnesses show their failure).
	kfDisabled bool
)

func verifRoot() string {
	if p := os.Getenv("VERIF_ROOT"); p != "" {
		return p
	}
	wd, _ := os.Getwd()
	// harness/checks → /verif
	return filepath.Clean(filepath.Join(wd, "..", ".."))
}

func loadKF() {
	kfOnce.Do(func() {
		kfActive = map[string]bool{}
		data, err := os.ReadFile(filepath.Join(verifRoot(), "known_findings.json"))
		if err != nil {
			return
		}
		var doc struct {
			Findings []KnownFinding `json:"findings"`
		}
		if err := json.Unmarshal(data, &doc); err != nil {
			panic("known_findings.json: " + err.Error())
		}
		kfList = doc.Findings
		for _, k := range kfList {
			if k.Status == "open" {
				kfActive[k.Property+"/"+k.Signature] = true
				for _, p := range k.Also {
					kfActive[p+"/"+k.Signature] = true
				}
			}
		}
	})
}

// known reports whether signature sig is an open known finding for property;
// if so the occurrence is counted.
func known(property, sig string) bool {
	loadKF()
	if sig == "" || kfDisabled {
		return false
	}
	if kfActive[property+"/"+sig] {
		stats.Exclude(sig)
		return true
	}
	return false
}

// knownQuiet is known without counting.
func knownQuiet(property, sig string) bool {
	loadKF()
	return !kfDisabled && sig != "" && kfActive[property+"/"+sig]
}

// ---------------------------------------------------------------------------
// registry of checks for replay / witnesses

// replayers maps a check name ("C14/seqfn") to a function that re-runs the
// oracle on the JSON case and returns the failure, if any.
var replayers = map[string]func(raw json.RawMessage) *Failure{}

func register(check string, f func(raw json.RawMessage) *Failure) {
	replayers[check] = f
}

func TestReplay(t *testing.T) {
	path := os.Getenv("VERIF_REPLAY")
	if path == "" {
		t.Skip("VERIF_REPLAY not set")
	}
	data, err := os.ReadFile(path)
	if err != nil {
		t.Fatalf("cannot read replay file: %v", err)
	}
	var f Failure
	if err := json.Unmarshal(data, &f); err != nil {
		t.Fatalf("bad replay file: %v", err)
	}
	r, ok := replayers[f.Check]
	if !ok {
		t.Fatalf("unknown check %q", f.Check)
	}
	kfDisabled = true
	defer func() { kfDisabled = false }()
	if g := r(f.Case); g != nil {
		fmt.Printf("REPLAY: reproduced property=%s check=%s sig=%s\n%s\n", g.Property, g.Check, g.Sig, g.Detail)
		t.Fatalf("reproduced")
	}
	fmt.Printf("REPLAY: not reproduced (the case passes now)\n")
}

// TestWitnesses runs the recorded witness of every open known finding of
// $VERIF_PROPERTY and prints a KNOWN-FINDING line for each that still fails.
func TestWitnesses(t *testing.T) {
	prop := os.Getenv("VERIF_PROPERTY")
	if prop == "" {
		t.Skip("VERIF_PROPERTY not set")
	}
	loadKF()
	kfDisabled = true
	defer func() { kfDisabled = false }()
	for _, k := range kfList {
		if k.Property != prop {
			also := false
			for _, p := range k.Also {
				also = also || p == prop
			}
			if !also {
				continue
			}
			k.Property = prop
		}
		if k.Status != "open" {
			// a fixed entry suppresses nothing; its witness must pass now
			if k.Check != "" && len(k.Witness) > 0 {
				if r, ok := replayers[k.Check]; ok {
					if g := r(k.Witness); g != nil {
						g.Sig = k.Signature
						report(t, g)
					}
				}
			}
			continue
		}
		r, ok := replayers[k.Check]
		if !ok || len(k.Witness) == 0 {
			fmt.Printf("KNOWN-FINDING: property=%s %s: %s (no executable witness)\n", k.Property, k.Signature, k.What)
			continue
		}
		g := r(k.Witness)
		switch {
		case g == nil:
			fmt.Printf("KNOWN-FINDING-GONE: property=%s %s: the witness passes now\n", k.Property, k.Signature)
		case g.Sig != k.Signature:
			// the witness fails in a way the entry does not describe
			report(t, g)
		default:
			fmt.Printf("KNOWN-FINDING: property=%s %s: %s [%s]\n", k.Property, k.Signature, k.What, oneLine(g.Detail))
		}
	}
}

func oneLine(s string) string {
	s = strings.ReplaceAll(s, "\n", " ⏎ ")
	if len(s) > 240 {
		s = s[:240] + "…"
	}
	return s
}

// ---------------------------------------------------------------------------

func TestMain(m *testing.M) {
	logrus.SetLevel(logrus.PanicLevel)
	code := m.Run()
	if p := os.Getenv("VERIF_STATS"); p != "" {
		stats.write(p)
	}
	os.Exit(code)
}

// size parameters: thorough widens the generators.
func thorough() bool { return os.Getenv("VERIF_TIER") == "thorough" }

func envInt(name string, def int) int {
	if s := os.Getenv(name); s != "" {
		if n, err := strconv.Atoi(s); err == nil {
			return n
		}
	}
	return def
}

// helpers for drawing
func pick[T any](t *rapid.T, label string, xs ...T) T {
	return xs[rapid.IntRange(0, len(xs)-1).Draw(t, label)]
}

func chance(t *rapid.T, label string, percent int) bool {
	return rapid.IntRange(0, 99).Draw(t, label) < percent
}

var (
	surveyMu   sync.Mutex
	surveySeen = map[string]int{}
)

// surveyKey groups failures for the development survey: the last line of the
// detail with digits and quoted text removed.
func surveyKey(detail string) string {
	lines := strings.Split(strings.TrimSpace(detail), "\n")
	last := lines[len(lines)-1]
	if i := strings.Index(last, "("); i > 0 && strings.HasSuffix(last, ")") {
		last = last[i:]
	}
	if len(last) > 80 {
		last = last[len(last)-80:]
	}
	return last
}
