package checks

import (
	"fmt"
	"sort"
	"strings"

	"pgregory.net/rapid"

	"verif/model"
)

// Generators of model values (the data fragment: numbers, tuples, finite sets)
// and of arr.ai source text denoting them. Alphabets are deliberately tiny so
// that indices, keys and attribute names collide all the time.

var (
	numAlphabet   = []float64{0, 1, 2, 3, -1, 97, 98, 255, 0.5, 256}
	plainNames    = []string{"a", "b", "c"}
	allNames      = []string{"a", "b", "c", "@", "@item", "@char", "@byte", "@value", "@foo", "x y", ""}
	charAlphabet  = []rune{'a', 'b', 'c'}
	byteAlphabet  = []byte{0, 1, 97, 255}
	seqAttrOfKind = map[string]string{"str": "@char", "bytes": "@byte", "arr": "@item"}
)

// gcfg tunes the value generator per property.
type gcfg struct {
	// oddSugar allows sugar-shaped tuples (@: x, @char|@byte|@item: y) whose
	// index is not an integer or whose char/byte is out of range.
	oddSugar bool
	// superimposed allows two values at one sequence index.
	superimposed bool
	// quotedNames allows attribute names that need quoting.
	quotedNames bool
}

var defaultCfg = gcfg{oddSugar: false, superimposed: true, quotedNames: true}

func genNum(t *rapid.T, label string) *model.V {
	// bias to the first few numbers
	i := rapid.IntRange(0, len(numAlphabet)+3).Draw(t, label)
	if i >= len(numAlphabet) {
		i -= len(numAlphabet)
	}
	return model.Num(numAlphabet[i])
}

func genSmallInt(t *rapid.T, label string, lo, hi int) *model.V {
	return model.Num(float64(rapid.IntRange(lo, hi).Draw(t, label)))
}

// genVal draws any data value.
func (g gcfg) genVal(t *rapid.T, depth int) *model.V {
	k := rapid.IntRange(0, 9).Draw(t, "valkind")
	switch {
	case depth <= 0 || k < 4:
		return genNum(t, "num")
	case k < 6:
		return g.genTuple(t, depth)
	default:
		v, _ := g.genSet(t, depth)
		return v
	}
}

// genLeaf draws a small value without further nesting below one level.
func (g gcfg) genLeaf(t *rapid.T) *model.V { return g.genVal(t, 1) }

func (g gcfg) names() []string {
	if g.quotedNames {
		return allNames
	}
	return allNames[:9]
}

func (g gcfg) genTuple(t *rapid.T, depth int) *model.V {
	shape := rapid.IntRange(0, 9).Draw(t, "tupshape")
	switch {
	case shape == 0:
		return model.Tup()
	case shape <= 2:
		// sugar-shaped pair
		attr := pick(t, "sugarattr", "@item", "@char", "@byte", "@value")
		return g.sugarTuple(t, attr, depth)
	case shape <= 6:
		// plain names
		n := rapid.IntRange(1, 3).Draw(t, "nattrs")
		m := map[string]*model.V{}
		for i := 0; i < n; i++ {
			m[pick(t, "name", plainNames...)] = g.genVal(t, depth-1)
		}
		return model.TupMap(m)
	default:
		n := rapid.IntRange(1, 3).Draw(t, "nattrs")
		m := map[string]*model.V{}
		for i := 0; i < n; i++ {
			m[pick(t, "name", g.names()...)] = g.genVal(t, depth-1)
		}
		return g.fixSugar(t, model.TupMap(m))
	}
}

func (g gcfg) sugarTuple(t *rapid.T, attr string, depth int) *model.V {
	var at, x *model.V
	switch attr {
	case "@value":
		at = g.genKey(t)
		x = g.genVal(t, depth-1)
	case "@item":
		at = genSmallInt(t, "idx", -1, 3)
		x = g.genVal(t, depth-1)
	case "@char":
		at = genSmallInt(t, "idx", -1, 3)
		x = model.Num(float64(pick(t, "char", charAlphabet...)))
	case "@byte":
		at = genSmallInt(t, "idx", -1, 3)
		x = model.Num(float64(pick(t, "byte", byteAlphabet...)))
	}
	if g.oddSugar && attr != "@value" && chance(t, "odd", 15) {
		if chance(t, "oddidx", 50) {
			at = model.Num(1.5)
		} else if attr != "@item" {
			x = model.Num(pick(t, "oddval", 300.0, -1.0, 97.5))
		}
	}
	return model.Tup("@", at, attr, x)
}

// fixSugar repairs a tuple that happens to have a sugar shape so that it stays
// inside the domain the evaluator accepts: the index of a sequence tuple and
// the char/byte must be numbers (anything else panics, which the repository's
// own tests pin down; that is C10's business).
func (g gcfg) fixSugar(t *rapid.T, v *model.V) *model.V {
	attr, ok := v.SugarAttr()
	if !ok || attr == "@value" {
		return v
	}
	return g.sugarTuple(t, attr, 1)
}

// genKey draws a dictionary key.
func (g gcfg) genKey(t *rapid.T) *model.V {
	switch rapid.IntRange(0, 9).Draw(t, "keykind") {
	case 0, 1, 2, 3:
		return genSmallInt(t, "key", 0, 3)
	case 4, 5:
		return model.Str(0, pick(t, "skey", "a", "b", "ab"))
	case 6:
		return model.Tup("a", genSmallInt(t, "key", 0, 2))
	case 7:
		return model.SetOf(genSmallInt(t, "key", 0, 2))
	case 8:
		return model.None
	default:
		return genNum(t, "key")
	}
}

var setKinds = []string{"empty", "true", "nums", "str", "bytes", "arr", "dict", "rel", "tuples", "mixed", "sets", "seqpairs", "any"}

// genSet draws a set value; kind names the shape that was aimed at.
func (g gcfg) genSet(t *rapid.T, depth int) (*model.V, string) {
	kind := pick(t, "setkind", setKinds...)
	return g.genSetKind(t, kind, depth), kind
}

func (g gcfg) genSetKind(t *rapid.T, kind string, depth int) *model.V {
	width := 4
	if thorough() {
		width = 6
	}
	switch kind {
	case "empty":
		return model.None
	case "true":
		return model.True
	case "nums":
		n := rapid.IntRange(1, width).Draw(t, "n")
		var ms []*model.V
		for i := 0; i < n; i++ {
			ms = append(ms, genNum(t, "num"))
		}
		return model.SetOf(ms...)
	case "str", "bytes", "arr":
		return g.genSeq(t, kind, depth)
	case "dict":
		n := rapid.IntRange(1, width).Draw(t, "n")
		var kv []*model.V
		for i := 0; i < n; i++ {
			kv = append(kv, g.genKey(t), g.genVal(t, depth-1))
		}
		return model.Dict(kv...)
	case "rel":
		h := genHeading(t, plainNames, 1, 3)
		return genRows(t, h, rapid.IntRange(1, width).Draw(t, "nrows"), 0, 2)
	case "tuples":
		n := rapid.IntRange(1, width).Draw(t, "n")
		var ms []*model.V
		for i := 0; i < n; i++ {
			ms = append(ms, g.genTuple(t, depth-1))
		}
		return model.SetOf(ms...)
	case "mixed":
		a := g.genSetKind(t, pick(t, "mix1", "nums", "str", "bytes", "arr", "dict", "rel", "tuples"), depth)
		b := g.genSetKind(t, pick(t, "mix2", "nums", "str", "bytes", "arr", "dict", "rel", "true", "sets"), depth)
		return model.Union(a, b)
	case "sets":
		n := rapid.IntRange(1, 3).Draw(t, "n")
		var ms []*model.V
		for i := 0; i < n; i++ {
			v, _ := g.genSet(t, depth-1)
			if depth <= 1 {
				v = g.genSetKind(t, pick(t, "inner", "empty", "true", "nums", "str"), 0)
			}
			ms = append(ms, v)
		}
		return model.SetOf(ms...)
	case "seqpairs":
		// sets of sugar-shaped tuples written one by one: collisions, mixed attrs
		n := rapid.IntRange(1, width).Draw(t, "n")
		attr := pick(t, "attr", "@item", "@char", "@byte", "@value")
		var ms []*model.V
		for i := 0; i < n; i++ {
			a := attr
			if chance(t, "otherattr", 10) {
				a = pick(t, "attr2", "@item", "@char", "@byte", "@value")
			}
			ms = append(ms, g.sugarTuple(t, a, depth))
		}
		v := model.SetOf(ms...)
		if !g.superimposed && hasSuperimposedDeep(v) {
			return g.genSeq(t, "arr", depth)
		}
		return v
	default:
		n := rapid.IntRange(0, width).Draw(t, "n")
		var ms []*model.V
		for i := 0; i < n; i++ {
			ms = append(ms, g.genVal(t, depth-1))
		}
		return model.SetOf(ms...)
	}
}

// genSeq draws a string / byte array / array with optional offset and holes.
func (g gcfg) genSeq(t *rapid.T, kind string, depth int) *model.V {
	maxLen := 4
	if thorough() {
		maxLen = 6
	}
	n := rapid.IntRange(1, maxLen).Draw(t, "len")
	off := 0
	if chance(t, "hasoff", 35) {
		off = rapid.IntRange(-2, 3).Draw(t, "off")
	}
	items := make([]*model.V, n)
	for i := range items {
		switch kind {
		case "str":
			items[i] = model.Num(float64(pick(t, "char", charAlphabet...)))
		case "bytes":
			items[i] = model.Num(float64(pick(t, "byte", byteAlphabet...)))
		default:
			items[i] = g.genVal(t, depth-1)
		}
	}
	if n >= 3 && chance(t, "holes", 30) {
		// interior holes only: leading/trailing holes are not part of the value
		h := rapid.IntRange(1, n-2).Draw(t, "hole")
		items[h] = nil
	}
	return model.Seq(seqAttrOfKind[kind], off, items...)
}

func genHeading(t *rapid.T, names []string, lo, hi int) []string {
	n := rapid.IntRange(lo, hi).Draw(t, "hlen")
	perm := rapid.Permutation(names).Draw(t, "hperm")
	if n > len(perm) {
		n = len(perm)
	}
	h := append([]string{}, perm[:n]...)
	return h
}

func genRows(t *rapid.T, h []string, n, lo, hi int) *model.V {
	var rows []*model.V
	for i := 0; i < n; i++ {
		m := map[string]*model.V{}
		for _, a := range h {
			m[a] = genSmallInt(t, "cell", lo, hi)
		}
		rows = append(rows, model.TupMap(m))
	}
	return model.SetOf(rows...)
}

func hasSuperimposedDeep(v *model.V) bool {
	return v.AnyNested(func(x *model.V) bool { return x.HasSuperimposed() })
}

// nearMiss draws a value that is likely not a member of s but looks like one.
func (g gcfg) nearMiss(t *rapid.T, s *model.V) *model.V {
	if len(s.Elems) == 0 || chance(t, "fresh", 25) {
		return g.genVal(t, 1)
	}
	e := s.Elems[rapid.IntRange(0, len(s.Elems)-1).Draw(t, "nm_elem")]
	if chance(t, "member", 30) {
		return e
	}
	switch e.K {
	case model.KNum:
		return genNum(t, "num")
	case model.KTup:
		if attr, ok := e.SugarAttr(); ok {
			at, _ := e.Get("@")
			x, _ := e.Get(attr)
			switch rapid.IntRange(0, 3).Draw(t, "nm_kind") {
			case 0: // same index/key, other value
				y := g.sugarTuple(t, attr, 1)
				yv, _ := y.Get(attr)
				return model.Tup("@", at, attr, yv)
			case 1: // other index/key, same value
				y := g.sugarTuple(t, attr, 1)
				ya, _ := y.Get("@")
				return model.Tup("@", ya, attr, x)
			case 2: // generic look-alike with an extra attribute
				return model.Tup("@", at, attr, x, "a", 1)
			default: // the same pair under another sugar attribute
				other := pick(t, "nm_attr", "@item", "@char", "@byte", "@value", "@foo")
				if (other == "@char" || other == "@byte") && !x.IsNum() {
					other = "@item"
				}
				if other != "@value" && other != "@foo" && !at.IsNum() {
					other = "@value"
				}
				return model.Tup("@", at, other, x)
			}
		}
		if len(e.Names) > 0 && chance(t, "nm_drop", 50) {
			return g.fixSugar(t, model.Project(e, e.Names[1:]))
		}
		return g.fixSugar(t, model.MergeTup(e, model.Tup(pick(t, "nm_name", plainNames...), genNum(t, "num"))))
	default:
		if len(e.Elems) > 0 && chance(t, "nm_sub", 50) {
			return model.SetOf(e.Elems[1:]...)
		}
		return model.With(e, genNum(t, "num"))
	}
}

// ---------------------------------------------------------------------------
// source rendering

// renderer turns model values into arr.ai source by literal paths chosen at
// random per node: every sugar and its spelled-out form.
type renderer struct {
	t *rapid.T
	// forms used, for the class histogram
	forms map[string]bool
	// every value rendered, for the signature tags of the case
	vals []*model.V
	// prefer names a computed path to take most of the time when it applies
	prefer string
}

func newRenderer(t *rapid.T) *renderer { return &renderer{t: t, forms: map[string]bool{}} }

func (r *renderer) use(f string) { r.forms[f] = true }

func (r *renderer) formList() []string {
	var fs []string
	for f := range r.forms {
		fs = append(fs, f)
	}
	sort.Strings(fs)
	return fs
}

// lit renders v as a literal expression (no operators except the offset sugar).
func (r *renderer) lit(v *model.V) string {
	r.vals = append(r.vals, v)
	return r.lit1(v)
}

func (r *renderer) lit1(v *model.V) string {
	switch v.K {
	case model.KNum:
		return model.SrcNum(v.N)
	case model.KTup:
		parts := make([]string, len(v.Names))
		for i, n := range v.Names {
			parts[i] = model.SrcName(n) + ": " + r.lit1(v.Vals[i])
		}
		return "(" + strings.Join(parts, ", ") + ")"
	}
	// sets
	if len(v.Elems) == 0 {
		return pick(r.t, "emptyform", "{}", "false", "{}", "[]", `""`)
	}
	if model.Eq(v, model.True) {
		return pick(r.t, "trueform", "true", "{()}")
	}
	var options []string
	options = append(options, "spelled")
	sv, isSeq := v.AsSeq()
	if isSeq {
		switch sv.Attr {
		case "@char":
			if _, ok := sv.PlainString(); ok {
				options = append(options, "sugar", "sugar")
			}
		case "@byte":
			if _, ok := sv.PlainBytes(); ok {
				options = append(options, "sugar", "sugar")
			}
		case "@item":
			options = append(options, "sugar", "sugar")
		}
	}
	if _, ok := v.AsDict(); ok {
		options = append(options, "dict", "dict")
	}
	if h, ok := model.Heading(v); ok && len(h) > 0 && allIdent(h) {
		options = append(options, "rel")
	}
	switch pick(r.t, "form", options...) {
	case "sugar":
		r.use("lit:" + sv.Attr)
		if sv.Off != 0 {
			r.use("lit:offset")
		}
		if sv.Holes > 0 {
			r.use("lit:holes")
		}
		switch sv.Attr {
		case "@char":
			s, _ := sv.PlainString()
			q := model.SrcQuote(s)
			if chance(r.t, "dq", 40) && !strings.ContainsAny(s, `"\`) {
				q = `"` + s + `"`
			}
			return offPrefix(sv.Off) + q
		case "@byte":
			bs, _ := sv.PlainBytes()
			parts := make([]string, len(bs))
			for i, b := range bs {
				parts[i] = fmt.Sprint(b)
			}
			return offPrefix(sv.Off) + "<<" + strings.Join(parts, ", ") + ">>"
		default:
			parts := make([]string, len(sv.Items))
			for i, it := range sv.Items {
				if it != nil {
					parts[i] = r.lit1(it)
				}
			}
			return offPrefix(sv.Off) + "[" + strings.Join(parts, ", ") + "]"
		}
	case "dict":
		r.use("lit:dict")
		kv, _ := v.AsDict()
		// a dict literal cannot repeat a key: fall back to a union of dicts
		seen := map[string]bool{}
		var first, rest []string
		for _, p := range kv {
			ent := r.lit1(p[0]) + ": " + r.lit1(p[1])
			if seen[p[0].Key()] {
				rest = append(rest, "{"+ent+"}")
				continue
			}
			seen[p[0].Key()] = true
			first = append(first, ent)
		}
		s := "{" + strings.Join(first, ", ") + "}"
		if len(rest) > 0 {
			r.use("lit:dict-multi")
			return "(" + s + " | " + strings.Join(rest, " | ") + ")"
		}
		return s
	case "rel":
		r.use("lit:rel")
		h, _ := model.Heading(v)
		h = rapid.Permutation(h).Draw(r.t, "relperm")
		rows := make([]string, len(v.Elems))
		for i, e := range v.Elems {
			cells := make([]string, len(h))
			for j, n := range h {
				x, _ := e.Get(n)
				cells[j] = r.lit1(x)
			}
			rows[i] = "(" + strings.Join(cells, ", ") + ")"
		}
		return "{|" + strings.Join(h, ", ") + "| " + strings.Join(rows, ", ") + "}"
	}
	r.use("lit:spelled")
	elems := v.Elems
	if len(elems) > 1 && chance(r.t, "shuffle", 50) {
		elems = rapid.Permutation(elems).Draw(r.t, "elemperm")
	}
	parts := make([]string, len(elems))
	for i, e := range elems {
		parts[i] = r.lit1(e)
	}
	return "{" + strings.Join(parts, ", ") + "}"
}

func allIdent(names []string) bool {
	for _, n := range names {
		if model.SrcName(n) != n || n == "." {
			return false
		}
	}
	return true
}

func offPrefix(off int) string {
	if off == 0 {
		return ""
	}
	if off < 0 {
		return fmt.Sprintf("(%d)\\", off)
	}
	return fmt.Sprintf("%d\\", off)
}

// computed renders set value v as the result of an operator applied to other
// values (which are themselves rendered literally), such that the model value
// of the expression is v by construction. path names the route taken.
func (r *renderer) computed(g gcfg, v *model.V) (src, path string) {
	t := r.t
	var options []string
	options = append(options, "union", "with", "without", "diff", "intersect", "where-ne", "where-in", "let")
	sv, isSeq := v.AsSeq()
	if isSeq && len(tagsOf(v)) > 0 {
		// only sequences the sugar can hold are operands of \, ++ and >>
		for _, tg := range tagsOf(v) {
			if tg == "odd-sugar" {
				isSeq = false
			}
		}
	}
	if isSeq {
		options = append(options, "offset", "offset")
		if sv.Holes == 0 && len(sv.Items) >= 2 {
			options = append(options, "concat", "concat")
		}
		options = append(options, "seqmap-id")
	}
	if len(v.Elems) > 0 {
		options = append(options, "map-id")
	}
	relHeading, isRel := model.Heading(v)
	if _, sugarHeading := v.Elems0SugarAttr(); isRel && !sugarHeading && len(v.Elems) > 0 && len(relHeading) >= 2 && allIdent(relHeading) {
		// joins lay their result columns out in join order, not sorted order
		options = append(options, "join-proj", "join-proj", "join-proj")
	}
	var splitKey, splitRest []string
	if _, sugarHeading := v.Elems0SugarAttr(); isRel && !sugarHeading && len(v.Elems) > 0 && allIdent(relHeading) {
		if splitKey, splitRest = losslessSplit(t, v, relHeading); len(splitRest) >= 2 {
			options = append(options, "join-split", "join-split", "join-split", "join-split")
		}
	}
	path = pick(t, "path", options...)
	if r.prefer != "" && inNamesList(options, r.prefer) && chance(t, "preferpath", 70) {
		path = r.prefer
	}
	r.use("path:" + path)
	switch path {
	case "union":
		a, b := splitCover(t, v)
		return "(" + r.lit(a) + " | " + r.lit(b) + ")", path
	case "with":
		if len(v.Elems) == 0 {
			return "({} | {})", path
		}
		x := v.Elems[rapid.IntRange(0, len(v.Elems)-1).Draw(t, "withx")]
		base := model.Without(v, x)
		if chance(t, "with_keep", 20) {
			base = v
		}
		return "(" + r.lit(base) + " with " + r.lit(x) + ")", path
	case "without":
		x := g.freshNonMember(t, v)
		return "(" + r.lit(model.With(v, x)) + " without " + r.lit(x) + ")", path
	case "diff":
		x := g.freshNonMember(t, v)
		extra := model.SetOf(x)
		if len(v.Elems) > 0 && chance(t, "diff_overlap", 30) {
			// the subtrahend may mention non-members only
			extra = model.With(extra, g.freshNonMember(t, v))
		}
		return "(" + r.lit(model.Union(v, extra)) + " &~ " + r.lit(extra) + ")", path
	case "intersect":
		x, y := g.freshNonMember(t, v), g.freshNonMember(t, v)
		if model.Eq(x, y) {
			return "(" + r.lit(v) + " & " + r.lit(model.With(v, x)) + ")", path
		}
		return "(" + r.lit(model.With(v, x)) + " & " + r.lit(model.With(v, y)) + ")", path
	case "where-ne":
		x := g.freshNonMember(t, v)
		return "(" + r.lit(model.With(v, x)) + " where . != " + r.lit(x) + ")", path
	case "where-in":
		x := g.freshNonMember(t, v)
		return "(" + r.lit(model.With(v, x)) + " where . <: " + r.lit(v) + ")", path
	case "let":
		return "(let v = " + r.lit(v) + "; v)", path
	case "offset":
		d := rapid.IntRange(-2, 2).Draw(t, "shift")
		return "(" + model.SrcNum(float64(d)) + "\\(" + r.lit(model.Shift(v, -d)) + "))", path
	case "concat":
		k := rapid.IntRange(1, len(sv.Items)-1).Draw(t, "cut")
		a := model.Seq(sv.Attr, sv.Off, sv.Items[:k]...)
		// ++ shifts its right operand by the element count of the left one
		b := model.Seq(sv.Attr, sv.Off, sv.Items[k:]...)
		return "(" + r.lit(a) + " ++ " + r.lit(b) + ")", path
	case "join-proj":
		// v joined with its own projection onto some of its attributes is v
		n := rapid.IntRange(1, len(relHeading)-1).Draw(t, "nproj")
		sub := rapid.Permutation(relHeading).Draw(t, "projattrs")[:n]
		proj := model.MapSet(v, func(e *model.V) *model.V { return model.Project(e, sub) })
		if hasPinnedSugarRow(proj) {
			return "(let v = " + r.lit(v) + "; v)", "let"
		}
		if chance(t, "projleft", 60) {
			return "(" + r.lit(proj) + " <&> " + r.lit(v) + ")", path
		}
		return "(" + r.lit(v) + " <&> " + r.lit(proj) + ")", path
	case "join-split":
		// the key determines the row, so joining the two projections is lossless;
		// the result's physical column order is (left-only, key, right-only)
		cut := rapid.IntRange(1, len(splitRest)-1).Draw(t, "splitcut")
		left := append(append([]string{}, splitKey...), splitRest[:cut]...)
		right := append(append([]string{}, splitKey...), splitRest[cut:]...)
		pa := model.MapSet(v, func(e *model.V) *model.V { return model.Project(e, left) })
		pb := model.MapSet(v, func(e *model.V) *model.V { return model.Project(e, right) })
		if hasPinnedSugarRow(pa) || hasPinnedSugarRow(pb) {
			return "(let v = " + r.lit(v) + "; v)", "let"
		}
		return "(" + r.lit(pa) + " <&> " + r.lit(pb) + ")", path
	case "seqmap-id":
		return "(" + r.lit(v) + " >> .)", path
	case "map-id":
		return "(" + r.lit(v) + " => .)", path
	}
	panic("unreachable")
}

// freshNonMember draws a value that is not in v (a near miss when possible).
func (g gcfg) freshNonMember(t *rapid.T, v *model.V) *model.V {
	for i := 0; i < 8; i++ {
		x := g.nearMiss(t, v)
		if !v.Has(x) && (g.superimposed || !hasSuperimposedDeep(model.With(v, x))) {
			return x
		}
	}
	// a value that cannot collide with anything generated
	return model.Num(float64(1000 + rapid.IntRange(0, 5).Draw(t, "far")))
}

// splitCover returns two sets whose union is v (they may overlap).
func splitCover(t *rapid.T, v *model.V) (*model.V, *model.V) {
	var a, b []*model.V
	for _, e := range v.Elems {
		switch rapid.IntRange(0, 4).Draw(t, "side") {
		case 0, 1:
			a = append(a, e)
		case 2, 3:
			b = append(b, e)
		default:
			a = append(a, e)
			b = append(b, e)
		}
	}
	return model.SetOf(a...), model.SetOf(b...)
}

// expr renders v either literally or through a computed path.
func (r *renderer) expr(g gcfg, v *model.V, computedPercent int) string {
	if v.K == model.KSet && chance(r.t, "computed", computedPercent) {
		s, _ := r.computed(g, v)
		return s
	}
	return r.lit(v)
}

// reprKind names the sugar a model set would canonically take.
func reprKind(v *model.V) string {
	if v.K == model.KNum {
		return "num"
	}
	if v.K == model.KTup {
		if a, ok := v.SugarAttr(); ok {
			return "tuple" + a
		}
		return "tuple"
	}
	if len(v.Elems) == 0 {
		return "empty"
	}
	if model.Eq(v, model.True) {
		return "true"
	}
	if sv, ok := v.AsSeq(); ok {
		k := map[string]string{"@char": "string", "@byte": "bytes", "@item": "array"}[sv.Attr]
		if sv.Off != 0 {
			k += "+off"
		}
		if sv.Holes > 0 {
			k += "+holes"
		}
		return k
	}
	if kv, ok := v.AsDict(); ok {
		seen := map[string]bool{}
		for _, p := range kv {
			if seen[p[0].Key()] {
				return "dict+multi"
			}
			seen[p[0].Key()] = true
		}
		return "dict"
	}
	if v.HasSuperimposed() {
		return "superimposed"
	}
	if h, ok := model.Heading(v); ok {
		if len(h) == 0 {
			return "true"
		}
		return "relation"
	}
	allTup, anyTup := true, false
	buckets := map[string]bool{}
	for _, e := range v.Elems {
		if e.K == model.KTup {
			anyTup = true
			if a, ok := e.SugarAttr(); ok {
				buckets[a] = true
			} else {
				buckets["tuple:"+strings.Join(e.Names, ",")] = true
			}
		} else {
			allTup = false
			buckets[fmt.Sprint(e.K)] = true
		}
	}
	if len(buckets) > 1 && anyTup {
		return "union"
	}
	if allTup {
		return "tuples"
	}
	return "generic"
}

// ---------------------------------------------------------------------------
// deep construction paths (C02, C06, C12): every node of the value may be
// built by an operator instead of a literal.

// deep renders v choosing, at every set or tuple node, between a literal and a
// computed construction whose model value is that node by construction.
func (r *renderer) deep(g gcfg, v *model.V, pct int) string {
	r.vals = append(r.vals, v)
	return r.deep1(g, v, pct)
}

func (r *renderer) deep1(g gcfg, v *model.V, pct int) string {
	switch v.K {
	case model.KNum:
		return model.SrcNum(v.N)
	case model.KTup:
		if len(v.Names) > 0 && chance(r.t, "tupcomputed", pct) {
			return r.tupleComputed(g, v, pct)
		}
		parts := make([]string, len(v.Names))
		for i, n := range v.Names {
			parts[i] = model.SrcName(n) + ": " + r.deep1(g, v.Vals[i], pct)
		}
		return "(" + strings.Join(parts, ", ") + ")"
	}
	if chance(r.t, "setcomputed", pct) {
		s, _ := r.computed(g, v)
		return s
	}
	if len(v.Elems) > 0 && len(v.Elems) <= 4 && chance(r.t, "setdeep", pct) {
		// spelled-out set whose members are themselves built deeply
		r.use("lit:spelled-deep")
		parts := make([]string, len(v.Elems))
		for i, e := range v.Elems {
			parts[i] = r.deep1(g, e, pct)
		}
		return "{" + strings.Join(parts, ", ") + "}"
	}
	return r.lit1(v)
}

// tupleComputed renders tuple v through +>, attribute removal or projection.
func (r *renderer) tupleComputed(g gcfg, v *model.V, pct int) string {
	t := r.t
	opts := []string{"merge", "merge", "let"}
	if !inNamesList(v.Names, "zz") {
		opts = append(opts, "drop")
		if allIdent(v.Names) {
			opts = append(opts, "project")
		}
	}
	path := pick(t, "tuppath", opts...)
	r.use("path:tuple-" + path)
	field := func(n string, x *model.V) string { return model.SrcName(n) + ": " + r.deep1(g, x, pct/2) }
	switch path {
	case "merge":
		// left gets a random subset (possibly with overwritten values), right the rest
		var left, right []string
		var ln, rn []string
		var lv, rv []*model.V
		for i, n := range v.Names {
			switch rapid.IntRange(0, 2).Draw(t, "mside") {
			case 0:
				left = append(left, field(n, v.Vals[i]))
				ln, lv = append(ln, n), append(lv, v.Vals[i])
			case 1:
				right = append(right, field(n, v.Vals[i]))
				rn, rv = append(rn, n), append(rv, v.Vals[i])
			default:
				junk := float64(rapid.IntRange(5, 9).Draw(t, "junk"))
				left = append(left, model.SrcName(n)+": "+model.SrcNum(junk))
				ln, lv = append(ln, n), append(lv, model.Num(junk))
				right = append(right, field(n, v.Vals[i]))
				rn, rv = append(rn, n), append(rv, v.Vals[i])
			}
		}
		if pinnedSugarLiteral(ln, lv) || pinnedSugarLiteral(rn, rv) {
			// one side alone would be a literal like (@: {}, @item: 2), whose panic the
			// repository's own tests pin down (C10's business): write the tuple whole
			break
		}
		return "((" + strings.Join(left, ", ") + ") +> (" + strings.Join(right, ", ") + "))"
	case "drop":
		parts := []string{}
		for i, n := range v.Names {
			parts = append(parts, field(n, v.Vals[i]))
		}
		parts = append(parts, "zz: "+model.SrcNum(float64(rapid.IntRange(0, 3).Draw(t, "junk"))))
		return "(" + strings.Join(parts, ", ") + ").~|zz|"
	case "project":
		parts := []string{}
		for i, n := range v.Names {
			parts = append(parts, field(n, v.Vals[i]))
		}
		parts = append(parts, "zz: "+model.SrcNum(float64(rapid.IntRange(0, 3).Draw(t, "junk"))))
		return "(" + strings.Join(parts, ", ") + ").|" + strings.Join(v.Names, ", ") + "|"
	}
	parts := []string{}
	for i, n := range v.Names {
		parts = append(parts, field(n, v.Vals[i]))
	}
	return "(let tt = (" + strings.Join(parts, ", ") + "); tt)"
}

// pinnedSugarLiteral: a tuple literal with exactly the names @ and one of
// @item/@char/@byte whose index (or char/byte) is not a number panics by design.
func pinnedSugarLiteral(names []string, vals []*model.V) bool {
	if len(names) != 2 {
		return false
	}
	var at, x *model.V
	attr := ""
	for i, n := range names {
		switch n {
		case "@":
			at = vals[i]
		case "@item", "@char", "@byte":
			attr, x = n, vals[i]
		}
	}
	if at == nil || x == nil {
		return false
	}
	return !at.IsNum() || (attr != "@item" && !x.IsNum())
}

// hasPinnedSugarRow: a projection of the rows would have to be written with a
// tuple literal that panics by design (see pinnedSugarLiteral).
func hasPinnedSugarRow(rows *model.V) bool {
	for _, e := range rows.Elems {
		if e.K == model.KTup && pinnedSugarLiteral(e.Names, e.Vals) {
			return true
		}
	}
	return false
}

func inNamesList(names []string, n string) bool {
	for _, x := range names {
		if x == n {
			return true
		}
	}
	return false
}

// mutate returns a value close to v but different from it.
func (g gcfg) mutate(t *rapid.T, v *model.V) *model.V {
	for i := 0; i < 6; i++ {
		w := g.mutate1(t, v)
		if !model.Eq(v, w) {
			return w
		}
	}
	if v.K == model.KNum {
		return model.Num(v.N + 1)
	}
	return model.Num(1234)
}

func (g gcfg) mutate1(t *rapid.T, v *model.V) *model.V {
	switch v.K {
	case model.KNum:
		return genNum(t, "num")
	case model.KTup:
		if len(v.Names) == 0 {
			return model.Tup("a", 1)
		}
		i := rapid.IntRange(0, len(v.Names)-1).Draw(t, "mut_attr")
		switch rapid.IntRange(0, 2).Draw(t, "mut_tup") {
		case 0: // change one value
			vals := append([]*model.V{}, v.Vals...)
			vals[i] = g.mutate(t, vals[i])
			return g.fixSugar(t, model.TupNV(v.Names, vals))
		case 1: // drop an attribute
			var names []string
			var vals []*model.V
			for j := range v.Names {
				if j != i {
					names = append(names, v.Names[j])
					vals = append(vals, v.Vals[j])
				}
			}
			return g.fixSugar(t, model.TupNV(names, vals))
		default: // add an attribute
			return g.fixSugar(t, model.MergeTup(v, model.Tup(pick(t, "mut_name", "a", "b", "c", "@foo"), genNum(t, "num"))))
		}
	}
	if len(v.Elems) == 0 {
		return model.SetOf(g.genVal(t, 1))
	}
	i := rapid.IntRange(0, len(v.Elems)-1).Draw(t, "mut_elem")
	e := v.Elems[i]
	switch rapid.IntRange(0, 3).Draw(t, "mut_set") {
	case 0:
		return model.Without(v, e)
	case 1:
		return model.With(v, g.nearMiss(t, v))
	case 2:
		return model.With(model.Without(v, e), g.mutate(t, e))
	default:
		if _, ok := v.AsSeq(); ok {
			return model.Shift(v, pick(t, "mut_shift", -1, 1))
		}
		return model.With(model.Without(v, e), g.mutate(t, e))
	}
}

// losslessSplit looks for attributes key of relation v whose values identify
// the row; rest are the other attributes in a random order. ok iff len(rest) >= 2.
func losslessSplit(t *rapid.T, v *model.V, h []string) (key, rest []string) {
	perm := rapid.Permutation(h).Draw(t, "splitperm")
	for n := 0; n <= len(perm)-2; n++ {
		k := perm[:n]
		proj := model.MapSet(v, func(e *model.V) *model.V { return model.Project(e, k) })
		if proj.Count() == v.Count() {
			return k, perm[n:]
		}
	}
	return nil, nil
}
