// Package model is the reference model of arr.ai data values used as the oracle
// by the checks: numbers, tuples and finite sets, nothing else. All sugar
// (strings, arrays, byte arrays, dictionaries, relations, booleans) is
// definitional: it denotes a plain set of tuples.
package model

import (
	"math"
	"sort"
	"strconv"
	"strings"
)

type Kind int

const (
	KNum Kind = iota
	KTup
	KSet
	// KOpaque stands for values outside the data fragment (functions).
	KOpaque
)

// V is an immutable model value. Tuples keep their attributes sorted by name;
// sets keep their members sorted by Key and duplicate-free.
type V struct {
	K     Kind
	N     float64
	Names []string
	Vals  []*V
	Elems []*V
	Desc  string // KOpaque only
	key   string
}

func Num(f float64) *V {
	if f == 0 {
		f = 0 // normalise -0
	}
	return &V{K: KNum, N: f}
}

// Tup builds a tuple from alternating name, value arguments.
func Tup(kv ...interface{}) *V {
	names := make([]string, 0, len(kv)/2)
	m := map[string]*V{}
	for i := 0; i+1 < len(kv); i += 2 {
		n := kv[i].(string)
		if _, has := m[n]; !has {
			names = append(names, n)
		}
		m[n] = toV(kv[i+1])
	}
	return TupMap(m)
}

func toV(x interface{}) *V {
	switch x := x.(type) {
	case *V:
		return x
	case int:
		return Num(float64(x))
	case float64:
		return Num(x)
	case string:
		return Str(0, x)
	case bool:
		return Bool(x)
	}
	panic("toV: unsupported")
}

func TupMap(m map[string]*V) *V {
	names := make([]string, 0, len(m))
	for n := range m {
		names = append(names, n)
	}
	sort.Strings(names)
	vals := make([]*V, len(names))
	for i, n := range names {
		vals[i] = m[n]
	}
	return &V{K: KTup, Names: names, Vals: vals}
}

func TupNV(names []string, vals []*V) *V {
	m := map[string]*V{}
	for i, n := range names {
		m[n] = vals[i]
	}
	return TupMap(m)
}

func SetOf(vs ...*V) *V {
	m := map[string]*V{}
	for _, v := range vs {
		m[v.Key()] = v
	}
	keys := make([]string, 0, len(m))
	for k := range m {
		keys = append(keys, k)
	}
	sort.Strings(keys)
	elems := make([]*V, len(keys))
	for i, k := range keys {
		elems[i] = m[k]
	}
	return &V{K: KSet, Elems: elems}
}

func Opaque(desc string) *V { return &V{K: KOpaque, Desc: desc} }

var (
	None  = SetOf()
	True  = SetOf(&V{K: KTup})
	False = None
)

func Bool(b bool) *V {
	if b {
		return True
	}
	return False
}

// Seq builds the set {(@: off+i, attr: items[i])} skipping nil items.
func Seq(attr string, off int, items ...*V) *V {
	var ms []*V
	for i, it := range items {
		if it != nil {
			ms = append(ms, Tup("@", off+i, attr, it))
		}
	}
	return SetOf(ms...)
}

func Str(off int, s string) *V {
	var items []*V
	for _, r := range s {
		items = append(items, Num(float64(r)))
	}
	return Seq("@char", off, items...)
}

// StrRunes is Str with rune -1 meaning a hole.
func StrRunes(off int, rs []rune) *V {
	items := make([]*V, len(rs))
	for i, r := range rs {
		if r >= 0 {
			items[i] = Num(float64(r))
		}
	}
	return Seq("@char", off, items...)
}

func Arr(off int, items ...*V) *V { return Seq("@item", off, items...) }

func Byt(off int, bs []byte) *V {
	items := make([]*V, len(bs))
	for i, b := range bs {
		items[i] = Num(float64(b))
	}
	return Seq("@byte", off, items...)
}

// Dict builds {(@: k, @value: v)} from alternating key, value arguments.
func Dict(kv ...*V) *V {
	var ms []*V
	for i := 0; i+1 < len(kv); i += 2 {
		ms = append(ms, Tup("@", kv[i], "@value", kv[i+1]))
	}
	return SetOf(ms...)
}

// Key is a canonical text of the value; two model values are equal iff their
// keys are equal.
func (v *V) Key() string {
	if v.key != "" {
		return v.key
	}
	var sb strings.Builder
	switch v.K {
	case KNum:
		sb.WriteString(FmtNum(v.N))
	case KTup:
		sb.WriteByte('(')
		for i, n := range v.Names {
			if i > 0 {
				sb.WriteString(", ")
			}
			sb.WriteString(strconv.Quote(n))
			sb.WriteString(": ")
			sb.WriteString(v.Vals[i].Key())
		}
		sb.WriteByte(')')
	case KSet:
		sb.WriteByte('{')
		for i, e := range v.Elems {
			if i > 0 {
				sb.WriteString(", ")
			}
			sb.WriteString(e.Key())
		}
		sb.WriteByte('}')
	case KOpaque:
		sb.WriteString("<opaque " + v.Desc + ">")
	}
	v.key = sb.String()
	return v.key
}

func (v *V) String() string { return v.Key() }

func FmtNum(f float64) string {
	if f == 0 {
		return "0"
	}
	if math.IsInf(f, 1) {
		return "+Inf"
	}
	if math.IsInf(f, -1) {
		return "-Inf"
	}
	if math.IsNaN(f) {
		return "NaN"
	}
	return strconv.FormatFloat(f, 'g', -1, 64)
}

func Eq(a, b *V) bool { return a.Key() == b.Key() }

func (v *V) IsSet() bool { return v.K == KSet }
func (v *V) IsTup() bool { return v.K == KTup }
func (v *V) IsNum() bool { return v.K == KNum }

// IsInt reports whether v is a number holding an integer, and returns it.
func (v *V) IsInt() (int, bool) {
	if v.K != KNum || v.N != math.Trunc(v.N) || math.Abs(v.N) > 1<<52 {
		return 0, false
	}
	return int(v.N), true
}

func (v *V) Get(name string) (*V, bool) {
	if v.K != KTup {
		return nil, false
	}
	for i, n := range v.Names {
		if n == name {
			return v.Vals[i], true
		}
	}
	return nil, false
}

func (v *V) Has(m *V) bool {
	if v.K != KSet {
		return false
	}
	k := m.Key()
	i := sort.Search(len(v.Elems), func(i int) bool { return v.Elems[i].Key() >= k })
	return i < len(v.Elems) && v.Elems[i].Key() == k
}

func (v *V) Count() int { return len(v.Elems) }

// Depth is the nesting depth (numbers 0).
func (v *V) Depth() int {
	d := 0
	for _, x := range v.Vals {
		if y := x.Depth() + 1; y > d {
			d = y
		}
	}
	for _, x := range v.Elems {
		if y := x.Depth() + 1; y > d {
			d = y
		}
	}
	if v.K != KNum && d == 0 {
		d = 1
	}
	return d
}

// Walk calls f on v and every value nested in it.
func (v *V) Walk(f func(*V)) {
	f(v)
	for _, x := range v.Vals {
		x.Walk(f)
	}
	for _, x := range v.Elems {
		x.Walk(f)
	}
}

// ContainsOpaque reports whether a function value is nested anywhere in v.
func (v *V) ContainsOpaque() bool {
	found := false
	v.Walk(func(x *V) {
		if x.K == KOpaque {
			found = true
		}
	})
	return found
}

// SugarAttr returns the attribute name if v is a tuple of the shape
// (@: _, @xxx: _) with @xxx one of the four sugar attributes.
func (v *V) SugarAttr() (string, bool) {
	if v.K != KTup || len(v.Names) != 2 || v.Names[0] != "@" {
		return "", false
	}
	switch v.Names[1] {
	case "@char", "@item", "@byte", "@value":
		return v.Names[1], true
	}
	return "", false
}

// SeqView describes a set all of whose members are (@: int, attr: x) for one
// sequence attribute, with no index used twice.
type SeqView struct {
	Attr  string
	Off   int
	Items []*V // nil = hole
	Holes int
}

// AsSeq returns the sequence view of a non-empty set if it has one.
func (v *V) AsSeq() (*SeqView, bool) {
	if v.K != KSet || len(v.Elems) == 0 {
		return nil, false
	}
	attr := ""
	idx := map[int]*V{}
	min, max := math.MaxInt32, math.MinInt32
	for _, e := range v.Elems {
		a, ok := e.SugarAttr()
		if !ok || a == "@value" {
			return nil, false
		}
		if attr == "" {
			attr = a
		} else if a != attr {
			return nil, false
		}
		at, _ := e.Get("@")
		i, isInt := at.IsInt()
		if !isInt {
			return nil, false
		}
		if _, dup := idx[i]; dup {
			return nil, false
		}
		x, _ := e.Get(attr)
		idx[i] = x
		if i < min {
			min = i
		}
		if i > max {
			max = i
		}
	}
	if max-min > 1000 {
		return nil, false
	}
	sv := &SeqView{Attr: attr, Off: min, Items: make([]*V, max-min+1)}
	for i, x := range idx {
		sv.Items[i-min] = x
	}
	for _, x := range sv.Items {
		if x == nil {
			sv.Holes++
		}
	}
	return sv, true
}

// HasSuperimposed reports whether the set holds two distinct sequence tuples
// (@: i, attr: x), (@: i, attr: y) with the same attr and index: the shape the
// sequence sugar cannot represent (known finding seq-superimposed-index).
func (v *V) HasSuperimposed() bool {
	if v.K != KSet {
		return false
	}
	seen := map[string]bool{}
	for _, e := range v.Elems {
		a, ok := e.SugarAttr()
		if !ok || a == "@value" {
			continue
		}
		at, _ := e.Get("@")
		k := a + "/" + at.Key()
		if seen[k] {
			return true
		}
		seen[k] = true
	}
	return false
}

// AnyNested reports whether p holds for v or any value nested in it.
func (v *V) AnyNested(p func(*V) bool) bool {
	found := false
	v.Walk(func(x *V) {
		if !found && p(x) {
			found = true
		}
	})
	return found
}

// Elems0SugarAttr reports the sugar attribute of the first member of set v,
// if that member is a sugar-shaped pair.
func (v *V) Elems0SugarAttr() (string, bool) {
	if v.K != KSet || len(v.Elems) == 0 {
		return "", false
	}
	return v.Elems[0].SugarAttr()
}
