package model

import "testing"

func TestKeyRoundTrip(t *testing.T) {
	vs := []*V{Num(1), Num(-0.5), Tup(), Tup("a", 1, "x y", "ab"), SetOf(), True, Str(2, "ab"), Arr(0, Num(1), nil, Num(3)),
		Dict(Num(1), Num(2), Num(1), Num(3)), SetOf(Tup("", 1), SetOf(SetOf()))}
	for _, v := range vs {
		w, err := ParseKey(v.Key())
		if err != nil || w.Key() != v.Key() {
			t.Fatalf("round trip of %s: %v %v", v.Key(), w, err)
		}
	}
	w, err := ParseKey(`{3, ("b": 1, "a": {2, 1}), 1}`)
	if err != nil || w.Key() != `{("a": {1, 2}, "b": 1), 1, 3}` {
		t.Fatalf("unsorted input: %v %v", w, err)
	}
}

func TestOps(t *testing.T) {
	a, b := SetOf(Num(1), Num(2), Num(3)), SetOf(Num(2), Num(3), Num(4))
	if Union(a, b).Count() != 4 || Intersect(a, b).Count() != 2 || Diff(a, b).Key() != "{1}" || SymDiff(a, b).Key() != "{1, 4}" {
		t.Fatal("set ops")
	}
	if PowerSet(a).Count() != 8 || !PowerSet(a).Has(None) {
		t.Fatal("powerset")
	}
	// docs/docs/lang/relops.md: R <&> S
	R := SetOf(Tup("x", 1, "y", 2), Tup("x", 1, "y", 4), Tup("x", 4, "y", 3))
	S := SetOf(Tup("y", 4, "z", 5), Tup("y", 4, "z", 1), Tup("y", 3, "z", 3))
	hr, hs := []string{"x", "y"}, []string{"y", "z"}
	j := Join("<&>", R, S, hr, hs)
	want := SetOf(Tup("x", 1, "y", 4, "z", 5), Tup("x", 1, "y", 4, "z", 1), Tup("x", 4, "y", 3, "z", 3))
	if !Eq(j, want) {
		t.Fatalf("join: %s", j)
	}
	if !Eq(Join("<->", R, S, hr, hs), SetOf(Tup("x", 1, "z", 5), Tup("x", 1, "z", 1), Tup("x", 4, "z", 3))) {
		t.Fatal("compose")
	}
	if !Eq(Join("---", R, S, hr, hs), True) || !Eq(Join("-&-", R, S, hr, hs), SetOf(Tup("y", 4), Tup("y", 3))) {
		t.Fatal("--- / -&-")
	}
	if !Eq(Join("<--", R, S, hr, hs), SetOf(Tup("x", 1), Tup("x", 4))) || !Eq(Join("-->", R, S, hr, hs), SetOf(Tup("z", 5), Tup("z", 1), Tup("z", 3))) {
		t.Fatal("<-- / -->")
	}
	n := Nest(R, hr, []string{"y"}, "ys")
	if !Eq(Unnest(n, "ys"), R) || n.Count() != 2 {
		t.Fatalf("nest/unnest: %s", n)
	}
	if vs, ok := CallAll(Str(1, "ab"), Num(2)); !ok || len(vs) != 1 || vs[0].N != 98 {
		t.Fatal("call")
	}
	if !Eq(Shift(Str(0, "ab"), 2), Str(2, "ab")) {
		t.Fatal("shift")
	}
}
