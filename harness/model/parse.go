package model

import (
	"fmt"
	"strconv"
	"strings"
)

// ParseKey reads the canonical text produced by Key (numbers, tuples with
// quoted attribute names, sets) and returns the value, re-canonicalised, so
// hand-written expectations need not be sorted.
func ParseKey(s string) (v *V, err error) {
	defer func() {
		if r := recover(); r != nil {
			v, err = nil, fmt.Errorf("ParseKey: %v", r)
		}
	}()
	p := &keyParser{s: s}
	v = p.value()
	p.ws()
	if p.i != len(p.s) {
		panic("trailing text at " + strconv.Itoa(p.i))
	}
	return v, nil
}

type keyParser struct {
	s string
	i int
}

func (p *keyParser) ws() {
	for p.i < len(p.s) && (p.s[p.i] == ' ' || p.s[p.i] == '\n') {
		p.i++
	}
}

func (p *keyParser) eat(c byte) bool {
	p.ws()
	if p.i < len(p.s) && p.s[p.i] == c {
		p.i++
		return true
	}
	return false
}

func (p *keyParser) value() *V {
	p.ws()
	if p.i >= len(p.s) {
		panic("unexpected end")
	}
	switch p.s[p.i] {
	case '{':
		p.i++
		var ms []*V
		for !p.eat('}') {
			ms = append(ms, p.value())
			p.eat(',')
		}
		return SetOf(ms...)
	case '(':
		p.i++
		m := map[string]*V{}
		for !p.eat(')') {
			p.ws()
			q, err := strconv.QuotedPrefix(p.s[p.i:])
			if err != nil {
				panic("attribute name must be quoted at " + strconv.Itoa(p.i))
			}
			p.i += len(q)
			name, _ := strconv.Unquote(q)
			if !p.eat(':') {
				panic("missing : at " + strconv.Itoa(p.i))
			}
			m[name] = p.value()
			p.eat(',')
		}
		return TupMap(m)
	}
	j := p.i
	for j < len(p.s) && strings.IndexByte(",)} ", p.s[j]) < 0 {
		j++
	}
	f, err := strconv.ParseFloat(p.s[p.i:j], 64)
	if err != nil {
		panic(err.Error())
	}
	p.i = j
	return Num(f)
}
