package model

import (
	"fmt"
	"regexp"
	"strings"
)

var identRE = regexp.MustCompile(`^[$@A-Za-z_][0-9$@A-Za-z_]*$`)

// SrcName renders a tuple attribute name as it may appear in a tuple literal.
func SrcName(n string) string {
	if identRE.MatchString(n) && n != "rec" {
		return n
	}
	return SrcQuote(n)
}

// SrcQuote renders s as a single-quoted arr.ai string literal. Only
// characters with well-established escapes are escaped.
func SrcQuote(s string) string {
	var sb strings.Builder
	sb.WriteByte('\'')
	for _, r := range s {
		switch r {
		case '\'':
			sb.WriteString(`\'`)
		case '\\':
			sb.WriteString(`\\`)
		case '\n':
			sb.WriteString(`\n`)
		case '\t':
			sb.WriteString(`\t`)
		case '\r':
			sb.WriteString(`\r`)
		default:
			sb.WriteRune(r)
		}
	}
	sb.WriteByte('\'')
	return sb.String()
}

// SrcNum renders a number as an expression (negative numbers parenthesised so
// the text can be used as an operand anywhere).
func SrcNum(f float64) string {
	s := FmtNum(f)
	if strings.HasPrefix(s, "-") {
		return "(" + s + ")"
	}
	return s
}

// SrcSpelled renders v as arr.ai source using only number, tuple and set
// literals: no sugar at all.
func SrcSpelled(v *V) string {
	switch v.K {
	case KNum:
		return SrcNum(v.N)
	case KTup:
		parts := make([]string, len(v.Names))
		for i, n := range v.Names {
			parts[i] = SrcName(n) + ": " + SrcSpelled(v.Vals[i])
		}
		return "(" + strings.Join(parts, ", ") + ")"
	case KSet:
		parts := make([]string, len(v.Elems))
		for i, e := range v.Elems {
			parts[i] = SrcSpelled(e)
		}
		return "{" + strings.Join(parts, ", ") + "}"
	}
	panic("SrcSpelled: opaque value")
}

func offPrefix(off int) string {
	if off == 0 {
		return ""
	}
	if off < 0 {
		return fmt.Sprintf("(%d)\\", off)
	}
	return fmt.Sprintf("%d\\", off)
}

// SrcSugar renders v with literal sugar wherever a literal form exists
// (strings, arrays with holes, byte arrays, offsets, dictionaries, booleans),
// falling back to spelled-out sets.
func SrcSugar(v *V) string {
	switch v.K {
	case KNum:
		return SrcNum(v.N)
	case KTup:
		parts := make([]string, len(v.Names))
		for i, n := range v.Names {
			parts[i] = SrcName(n) + ": " + SrcSugar(v.Vals[i])
		}
		return "(" + strings.Join(parts, ", ") + ")"
	case KSet:
		if len(v.Elems) == 0 {
			return "{}"
		}
		if Eq(v, True) {
			return "true"
		}
		if sv, ok := v.AsSeq(); ok {
			switch sv.Attr {
			case "@char":
				if s, ok := sv.PlainString(); ok {
					return offPrefix(sv.Off) + SrcQuote(s)
				}
			case "@item":
				parts := make([]string, len(sv.Items))
				for i, it := range sv.Items {
					if it != nil {
						parts[i] = SrcSugar(it)
					}
				}
				return offPrefix(sv.Off) + "[" + strings.Join(parts, ", ") + "]"
			case "@byte":
				if bs, ok := sv.PlainBytes(); ok {
					parts := make([]string, len(bs))
					for i, b := range bs {
						parts[i] = fmt.Sprint(b)
					}
					return offPrefix(sv.Off) + "<<" + strings.Join(parts, ", ") + ">>"
				}
			}
		}
		if kv, ok := v.AsDict(); ok {
			parts := make([]string, len(kv))
			for i, p := range kv {
				parts[i] = SrcSugar(p[0]) + ": " + SrcSugar(p[1])
			}
			return "{" + strings.Join(parts, ", ") + "}"
		}
		parts := make([]string, len(v.Elems))
		for i, e := range v.Elems {
			parts[i] = SrcSugar(e)
		}
		return "{" + strings.Join(parts, ", ") + "}"
	}
	panic("SrcSugar: opaque value")
}

func (sv *SeqView) PlainString() (string, bool) {
	if sv.Holes > 0 {
		return "", false
	}
	rs := make([]rune, len(sv.Items))
	for i, it := range sv.Items {
		c, ok := it.IsInt()
		if !ok || c < 32 || c > 0x10FFFF || c == 127 || (c >= 0xD800 && c < 0xE000) || c == 0x2035 {
			return "", false
		}
		rs[i] = rune(c)
	}
	return string(rs), true
}

func (sv *SeqView) PlainBytes() ([]byte, bool) {
	if sv.Holes > 0 {
		return nil, false
	}
	bs := make([]byte, len(sv.Items))
	for i, it := range sv.Items {
		c, ok := it.IsInt()
		if !ok || c < 0 || c > 255 {
			return nil, false
		}
		bs[i] = byte(c)
	}
	return bs, true
}

// AsDict returns the key/value pairs if every member of the non-empty set is
// (@: k, @value: v) (keys may repeat).
func (v *V) AsDict() ([][2]*V, bool) {
	if v.K != KSet || len(v.Elems) == 0 {
		return nil, false
	}
	var kv [][2]*V
	for _, e := range v.Elems {
		if a, ok := e.SugarAttr(); !ok || a != "@value" {
			return nil, false
		}
		k, _ := e.Get("@")
		x, _ := e.Get("@value")
		kv = append(kv, [2]*V{k, x})
	}
	return kv, true
}
