package model

import (
	"sort"
)

// Set algebra by direct comprehension over the sorted member lists.

func Union(a, b *V) *V {
	return SetOf(append(append([]*V{}, a.Elems...), b.Elems...)...)
}

func Filter(a *V, p func(*V) bool) *V {
	var out []*V
	for _, e := range a.Elems {
		if p(e) {
			out = append(out, e)
		}
	}
	return SetOf(out...)
}

func Intersect(a, b *V) *V { return Filter(a, func(x *V) bool { return b.Has(x) }) }
func Diff(a, b *V) *V      { return Filter(a, func(x *V) bool { return !b.Has(x) }) }
func SymDiff(a, b *V) *V   { return Union(Diff(a, b), Diff(b, a)) }
func With(a, x *V) *V      { return Union(a, SetOf(x)) }
func Without(a, x *V) *V   { return Diff(a, SetOf(x)) }

// SubsetEq reports a ⊆ b.
func SubsetEq(a, b *V) bool {
	for _, e := range a.Elems {
		if !b.Has(e) {
			return false
		}
	}
	return true
}

func MapSet(a *V, f func(*V) *V) *V {
	out := make([]*V, len(a.Elems))
	for i, e := range a.Elems {
		out[i] = f(e)
	}
	return SetOf(out...)
}

func PowerSet(a *V) *V {
	n := len(a.Elems)
	out := make([]*V, 0, 1<<uint(n))
	for mask := 0; mask < 1<<uint(n); mask++ {
		var ms []*V
		for i := 0; i < n; i++ {
			if mask&(1<<uint(i)) != 0 {
				ms = append(ms, a.Elems[i])
			}
		}
		out = append(out, SetOf(ms...))
	}
	return SetOf(out...)
}

// ---------------------------------------------------------------------------
// relations

// Heading returns the common attribute names of a set of tuples. ok is false
// when a member is not a tuple or the members disagree on their names. The
// empty set has the empty heading.
func Heading(r *V) (names []string, ok bool) {
	if r.K != KSet {
		return nil, false
	}
	for i, e := range r.Elems {
		if e.K != KTup {
			return nil, false
		}
		if i == 0 {
			names = e.Names
			continue
		}
		if len(e.Names) != len(names) {
			return nil, false
		}
		for j := range names {
			if names[j] != e.Names[j] {
				return nil, false
			}
		}
	}
	return names, true
}

func inNames(names []string, n string) bool {
	for _, x := range names {
		if x == n {
			return true
		}
	}
	return false
}

// Project keeps only the named attributes of tuple t.
func Project(t *V, names []string) *V {
	m := map[string]*V{}
	for i, n := range t.Names {
		if inNames(names, n) {
			m[n] = t.Vals[i]
		}
	}
	return TupMap(m)
}

// MergeTup is t + u (u wins on common names; callers ensure agreement).
func MergeTup(t, u *V) *V {
	m := map[string]*V{}
	for i, n := range t.Names {
		m[n] = t.Vals[i]
	}
	for i, n := range u.Names {
		m[n] = u.Vals[i]
	}
	return TupMap(m)
}

// JoinParts splits the headings of a and b into left-only, common, right-only.
func JoinParts(ha, hb []string) (left, common, right []string) {
	for _, n := range ha {
		if inNames(hb, n) {
			common = append(common, n)
		} else {
			left = append(left, n)
		}
	}
	for _, n := range hb {
		if !inNames(ha, n) {
			right = append(right, n)
		}
	}
	return
}

// Join computes the join variant op of relations a and b with the given
// headings (needed because an empty relation has no observable heading).
// op is one of <&> <-> -&- --- -&> <&- --> <--.
func Join(op string, a, b *V, ha, hb []string) *V {
	left, common, right := JoinParts(ha, hb)
	var keep []string
	if op[0] == '<' {
		keep = append(keep, left...)
	}
	if op[1] == '&' {
		keep = append(keep, common...)
	}
	if op[2] == '>' {
		keep = append(keep, right...)
	}
	var out []*V
	for _, t := range a.Elems {
		for _, u := range b.Elems {
			agree := true
			for _, n := range common {
				x, _ := t.Get(n)
				y, _ := u.Get(n)
				if !Eq(x, y) {
					agree = false
					break
				}
			}
			if agree {
				out = append(out, Project(MergeTup(t, u), keep))
			}
		}
	}
	return SetOf(out...)
}

// Nest groups relation r (heading h) by the attributes not in attrs; the
// grouped attributes become a relation-valued attribute name.
func Nest(r *V, h, attrs []string, name string) *V {
	var key []string
	for _, n := range h {
		if !inNames(attrs, n) {
			key = append(key, n)
		}
	}
	groups := map[string][]*V{}
	keys := map[string]*V{}
	for _, t := range r.Elems {
		k := Project(t, key)
		groups[k.Key()] = append(groups[k.Key()], Project(t, attrs))
		keys[k.Key()] = k
	}
	var out []*V
	for kk, k := range keys {
		out = append(out, MergeTup(k, TupMap(map[string]*V{name: SetOf(groups[kk]...)})))
	}
	return SetOf(out...)
}

// Unnest expands the relation-valued attribute name of every tuple of r.
func Unnest(r *V, name string) *V {
	var out []*V
	for _, t := range r.Elems {
		inner, _ := t.Get(name)
		var rest []string
		for _, n := range t.Names {
			if n != name {
				rest = append(rest, n)
			}
		}
		base := Project(t, rest)
		for _, u := range inner.Elems {
			out = append(out, MergeTup(base, u))
		}
	}
	return SetOf(out...)
}

// ---------------------------------------------------------------------------
// keyed collections

// CallAll returns every x with (@: k, _: x) in c, for two-attribute tuples
// whose other attribute is anything. ok is false if c has a member that is not
// such a pair.
func CallAll(c, k *V) (vals []*V, ok bool) {
	if c.K != KSet {
		return nil, false
	}
	for _, e := range c.Elems {
		if e.K != KTup || len(e.Names) != 2 {
			return nil, false
		}
		at, has := e.Get("@")
		if !has {
			return nil, false
		}
		if Eq(at, k) {
			for i, n := range e.Names {
				if n != "@" {
					vals = append(vals, e.Vals[i])
				}
			}
		}
	}
	return vals, true
}

// Shift adds n to the @ attribute of every member.
func Shift(c *V, n int) *V {
	return MapSet(c, func(e *V) *V {
		at, _ := e.Get("@")
		return MergeTup(e, Tup("@", Num(at.N+float64(n))))
	})
}

// MapValues applies f(key, value) to the non-@ attribute of every member.
func MapValues(c *V, f func(k, x *V) *V) *V {
	return MapSet(c, func(e *V) *V {
		at, _ := e.Get("@")
		m := map[string]*V{"@": at}
		for i, n := range e.Names {
			if n != "@" {
				m[n] = f(at, e.Vals[i])
			}
		}
		return TupMap(m)
	})
}

// SortedBy returns the members of s sorted by less (stable on the canonical order).
func SortedBy(s *V, less func(a, b *V) bool) []*V {
	out := append([]*V{}, s.Elems...)
	sort.SliceStable(out, func(i, j int) bool { return less(out[i], out[j]) })
	return out
}
