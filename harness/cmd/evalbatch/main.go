// evalbatch evaluates each program of a batch file (one JSON string per line)
// in this fresh process and prints one line per program: the printed value, or
// "!error" / "!panic". Used to compare runs across processes (hash seeds).
package main

import (
	"bufio"
	"context"
	"encoding/json"
	"fmt"
	"os"

	"github.com/arr-ai/arrai/pkg/ctxfs"
	"github.com/arr-ai/arrai/pkg/ctxrootcache"
	"github.com/arr-ai/arrai/syntax"
	"github.com/sirupsen/logrus"
	"github.com/spf13/afero"
)

func eval(src string) (out string) {
	defer func() {
		if r := recover(); r != nil {
			out = "!panic"
		}
	}()
	ctx := context.Background()
	ctx = ctxfs.SourceFsOnto(ctx, afero.NewMemMapFs())
	ctx = ctxfs.RuntimeFsOnto(ctx, afero.NewMemMapFs())
	ctx = ctxrootcache.WithRootCache(ctx)
	v, err := syntax.EvaluateExpr(ctx, syntax.NoPath, src)
	if err != nil {
		return "!error"
	}
	return fmt.Sprintf("%v", v)
}

func main() {
	logrus.SetLevel(logrus.PanicLevel)
	f, err := os.Open(os.Args[1])
	if err != nil {
		fmt.Fprintln(os.Stderr, err)
		os.Exit(2)
	}
	sc := bufio.NewScanner(f)
	sc.Buffer(make([]byte, 1<<20), 1<<24)
	w := bufio.NewWriter(os.Stdout)
	defer w.Flush()
	for sc.Scan() {
		var src string
		if err := json.Unmarshal(sc.Bytes(), &src); err != nil {
			fmt.Fprintln(os.Stderr, err)
			os.Exit(2)
		}
		// evaluate twice in this process: Go map iteration order may differ between the two
		a, b := eval(src), eval(src)
		if a != b {
			a = "!unstable-within-process\t" + a + "\t" + b
		}
		enc, _ := json.Marshal(a)
		w.Write(enc)
		w.WriteByte('\n')
	}
}
