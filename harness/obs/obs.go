// Package obs observes real arr.ai values and evaluations through exported API
// only and turns them into model values / outcome records.
package obs

import (
	"context"
	"fmt"
	"regexp"
	"runtime"
	"strings"
	"time"

	"github.com/arr-ai/arrai/pkg/ctxfs"
	"github.com/arr-ai/arrai/pkg/ctxrootcache"
	"github.com/arr-ai/arrai/rel"
	"github.com/arr-ai/arrai/syntax"
	"github.com/spf13/afero"

	"verif/model"
)

// Denote converts a rel.Value to the model value it denotes. anomalies lists
// internal inconsistencies seen on the way (duplicate members in an
// enumeration, Count() disagreeing with the enumeration, a member that Has()
// denies).
func Denote(v rel.Value) (m *model.V, anomalies []string) {
	defer func() {
		if r := recover(); r != nil {
			m = model.Opaque(fmt.Sprintf("panic while observing: %v", r))
			anomalies = append(anomalies, fmt.Sprintf("panic while observing %T: %v", v, r))
		}
	}()
	return denote(v, &anomalies), anomalies
}

func denote(v rel.Value, an *[]string) *model.V {
	switch x := v.(type) {
	case rel.Number:
		return model.Num(x.Float64())
	case rel.Closure, *rel.NativeFunction:
		return model.Opaque(fmt.Sprintf("%T", v))
	case rel.Tuple:
		m := map[string]*model.V{}
		n := 0
		for e := x.Enumerator(); e.MoveNext(); {
			name, val := e.Current()
			if _, dup := m[name]; dup {
				*an = append(*an, fmt.Sprintf("tuple enumerates attribute %q twice", name))
			}
			m[name] = denote(val, an)
			n++
		}
		if x.Count() != n {
			*an = append(*an, fmt.Sprintf("tuple Count()=%d but %d attributes enumerated (%T)", x.Count(), n, v))
		}
		return model.TupMap(m)
	case rel.Set:
		if isFunc(x) {
			return model.Opaque(fmt.Sprintf("%T", v))
		}
		var ms []*model.V
		seen := map[string]bool{}
		n := 0
		for e := x.Enumerator(); e.MoveNext(); {
			cur := e.Current()
			d := denote(cur, an)
			if seen[d.Key()] {
				*an = append(*an, fmt.Sprintf("set enumerates member %s twice (%T)", d.Key(), v))
			}
			seen[d.Key()] = true
			ms = append(ms, d)
			n++
			if n > 5000 {
				*an = append(*an, fmt.Sprintf("enumeration of %T does not end (more than 5000 members seen)", v))
				break
			}
			if !d.ContainsOpaque() && !x.Has(cur) {
				*an = append(*an, fmt.Sprintf("set enumerates member %s but Has() denies it (%T)", d.Key(), v))
			}
		}
		if c := x.Count(); c != n {
			*an = append(*an, fmt.Sprintf("set Count()=%d but %d members enumerated (%T)", c, n, v))
		}
		if x.IsTrue() != (n > 0) {
			*an = append(*an, fmt.Sprintf("set IsTrue()=%v with %d members (%T)", x.IsTrue(), n, v))
		}
		return model.SetOf(ms...)
	}
	return model.Opaque(fmt.Sprintf("%T", v))
}

func isFunc(s rel.Set) bool {
	switch s.(type) {
	case rel.Closure, *rel.NativeFunction:
		return true
	}
	// Other function-like sets (composed functions, expression closures) panic
	// on enumeration; recognise them by type name.
	n := fmt.Sprintf("%T", s)
	return strings.Contains(n, "Func") || strings.Contains(n, "Closure")
}

// ToRel builds a rel.Value from a model value with the exported constructors
// that literal evaluation uses.
func ToRel(v *model.V) rel.Value {
	switch v.K {
	case model.KNum:
		return rel.NewNumber(v.N)
	case model.KTup:
		attrs := make([]rel.Attr, len(v.Names))
		for i, n := range v.Names {
			attrs[i] = rel.NewAttr(n, ToRel(v.Vals[i]))
		}
		return rel.NewTuple(attrs...)
	case model.KSet:
		vals := make([]rel.Value, len(v.Elems))
		for i, e := range v.Elems {
			vals[i] = ToRel(e)
		}
		return rel.MustNewSet(vals...)
	}
	panic("ToRel: opaque")
}

// Outcome of a guarded evaluation.
type Outcome struct {
	Kind  string // "value", "error", "panic", "hang"
	Value rel.Value
	Err   string
	Panic string // panic message
	Site  string // first arr-ai/arrai frame of the panic
	Stack string
}

func (o Outcome) String() string {
	switch o.Kind {
	case "value":
		return "value " + Repr(o.Value)
	case "error":
		return "error: " + firstLine(o.Err)
	case "panic":
		return "panic: " + firstLine(o.Panic) + " @ " + o.Site
	}
	return o.Kind
}

func firstLine(s string) string {
	if i := strings.IndexByte(s, '\n'); i >= 0 {
		s = s[:i]
	}
	if len(s) > 300 {
		s = s[:300] + "…"
	}
	return s
}

// Repr is the printed form (%v) of a value, guarded.
func Repr(v rel.Value) (s string) {
	defer func() {
		if r := recover(); r != nil {
			s = fmt.Sprintf("<panic in repr: %v>", r)
		}
	}()
	return fmt.Sprintf("%v", v)
}

// Ctx returns an evaluation context whose source and runtime filesystems are
// empty in-memory filesystems.
func Ctx() context.Context {
	return CtxFs(afero.NewMemMapFs(), afero.NewMemMapFs())
}

func CtxFs(src, rt afero.Fs) context.Context {
	ctx := context.Background()
	ctx = ctxfs.SourceFsOnto(ctx, src)
	ctx = ctxfs.RuntimeFsOnto(ctx, rt)
	ctx = ctxrootcache.WithRootCache(ctx)
	return ctx
}

var frameRE = regexp.MustCompile(`(?m)^(github\.com/arr-ai/arrai/[^\s(]+(?:\([^)]*\))?[^\s(]*)\(`)

// PanicSite extracts the innermost arr-ai/arrai function from a stack trace
// taken inside a deferred recover.
func PanicSite(stack string) string {
	// skip frames up to and including the panic call itself
	// (the last one: a deferred function that recovers and re-panics, like
	// syntax.Compile's, sits on top of the frames of the original panic)
	if i := strings.LastIndex(stack, "\npanic("); i >= 0 {
		stack = stack[i+1:]
	}
	for _, m := range frameRE.FindAllStringSubmatch(stack, -1) {
		f := m[1]
		f = strings.TrimPrefix(f, "github.com/arr-ai/arrai/")
		return f
	}
	return "?"
}

// Guard runs f, converting a panic into an Outcome.
func Guard(f func() (rel.Value, error)) (out Outcome) {
	defer func() {
		if r := recover(); r != nil {
			buf := make([]byte, 1<<16)
			buf = buf[:runtime.Stack(buf, false)]
			out = Outcome{Kind: "panic", Panic: fmt.Sprint(r), Site: PanicSite(string(buf)), Stack: string(buf)}
		}
	}()
	v, err := f()
	if err != nil {
		return Outcome{Kind: "error", Err: err.Error()}
	}
	if v == nil {
		return Outcome{Kind: "error", Err: "nil value without error"}
	}
	return Outcome{Kind: "value", Value: v}
}

// Eval compiles and evaluates src (no imports available), guarded.
func Eval(src string) Outcome {
	return EvalCtx(Ctx(), src)
}

func EvalCtx(ctx context.Context, src string) Outcome {
	return Guard(func() (rel.Value, error) {
		return syntax.EvaluateExpr(ctx, syntax.NoPath, src)
	})
}

// EvalTimeout is Eval with a watchdog: if evaluation does not finish in d the
// outcome is "hang" and the goroutine is leaked. Stacks holds the goroutine dump.
func EvalTimeout(ctx context.Context, src string, d time.Duration) Outcome {
	ch := make(chan Outcome, 1)
	go func() { ch <- EvalCtx(ctx, src) }()
	select {
	case o := <-ch:
		return o
	case <-time.After(d):
		buf := make([]byte, 1<<20)
		buf = buf[:runtime.Stack(buf, true)]
		return Outcome{Kind: "hang", Stack: string(buf)}
	}
}

// EvalScope evaluates src with the given values bound to names, guarded.
func EvalScope(src string, vars map[string]rel.Value) Outcome {
	return Guard(func() (rel.Value, error) {
		scope := rel.EmptyScope
		for n, v := range vars {
			scope = scope.With(n, v)
		}
		return syntax.EvalWithScope(Ctx(), syntax.NoPath, src, scope)
	})
}

// Outcome2 is an evaluation outcome whose error has not been rendered yet.
type Outcome2 struct {
	Outcome
	ErrObj error
}

// EvalNoRender compiles and evaluates src; an error is returned as an object
// (its message is not computed).
func EvalNoRender(ctx context.Context, src string) (out Outcome2) {
	defer func() {
		if r := recover(); r != nil {
			buf := make([]byte, 1<<16)
			buf = buf[:runtime.Stack(buf, false)]
			out = Outcome2{Outcome: Outcome{Kind: "panic", Panic: fmt.Sprint(r), Site: PanicSite(string(buf)), Stack: string(buf)}}
		}
	}()
	v, err := syntax.EvaluateExpr(ctx, syntax.NoPath, src)
	if err != nil {
		return Outcome2{Outcome: Outcome{Kind: "error"}, ErrObj: err}
	}
	if v == nil {
		return Outcome2{Outcome: Outcome{Kind: "error", Err: "nil value without error"}}
	}
	return Outcome2{Outcome: Outcome{Kind: "value", Value: v}}
}

// RenderErr computes err.Error() under a watchdog. ok is false if it did not
// finish in d; stacks then holds a dump of all goroutines.
func RenderErr(err error, d time.Duration) (msg string, ok bool, stacks string) {
	ch := make(chan string, 1)
	go func() {
		defer func() {
			if r := recover(); r != nil {
				ch <- fmt.Sprintf("<panic while rendering the error: %v>", r)
			}
		}()
		ch <- err.Error()
	}()
	select {
	case m := <-ch:
		return m, true, ""
	case <-time.After(d):
		buf := make([]byte, 1<<20)
		buf = buf[:runtime.Stack(buf, true)]
		return "", false, string(buf)
	}
}

// AllStacks dumps every goroutine.
func AllStacks() string {
	buf := make([]byte, 1<<21)
	return string(buf[:runtime.Stack(buf, true)])
}
