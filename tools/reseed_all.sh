#!/bin/bash
# development aid: applies every kept seeded change to /repo in turn, runs the quick check of its property
# (C01-2: C03), undoes it, and writes one line per change to seeded/final_detection.txt
OUT=/verif/seeded/final_detection.txt; : > $OUT
for d in /verif/seeded/*/; do
  id=$(basename $d); prop=${id%%-*}
  [ "$id" = "C16-1" ] && { echo "$id skipped (neutralised by fix cba7a77, see meta.json)" >> $OUT; continue; }
  [ "$id" = "C01-2" ] && prop=C03
  git -C /repo apply --3way $d/patch.diff >/dev/null 2>&1 || { echo "$id patch does not apply" >> $OUT; git -C /repo checkout -- .; continue; }
  git -C /repo reset -q
  t0=$(date +%s)
  (cd /verif && ./check $prop quick) > /tmp/reseed.log 2>&1; rc=$?
  git -C /repo checkout -- .
  n=$(grep -a -c '^VIOLATION' /tmp/reseed.log)
  echo "$id check=$prop rc=$rc violations=$n wall=$(( $(date +%s) - t0 ))s" >> $OUT
  for f in $(grep -a -o 'replays/[^ ]*' /tmp/reseed.log); do rm -f /verif/$f; done
done
git -C /repo status --short | head -3 >> $OUT
