#!/bin/bash
# validates MANIFEST.json and every evidence file against the schemas
cd "$(dirname "$0")/.."
python3-vt - <<'PY'
import json,jsonschema,glob
jsonschema.validate(json.load(open('MANIFEST.json')), json.load(open('/root/.vp/MANIFEST.schema.json')))
s=json.load(open('/root/.vp/EVIDENCE.schema.json'))
for f in sorted(glob.glob('evidence/*.json')):
    jsonschema.validate(json.load(open(f)), s)
    print('ok', f)
print('manifest ok')
PY
