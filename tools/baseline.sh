#!/bin/bash
# Runs the repository's own suite exactly as BASELINE.json does and reports every
# stable_pass test that does not pass. Exit 0 iff all 775 stable tests pass.
# usage: tools/baseline.sh [repo-dir] [extra go test args, e.g. -tags verif]
REPO=${1:-/repo}; shift
cd "$REPO" || exit 2
export GOFLAGS=-mod=mod GOPROXY=off
unset GOSUMDB GOTOOLCHAIN
OUT=$(mktemp)
go test -mod=mod -json -vet=off -count=1 -timeout 25m "$@" ./... > "$OUT" 2>/dev/null
python3 - "$OUT" <<'PY'
import json,sys
res={}
for line in open(sys.argv[1], errors='replace'):
    try: e=json.loads(line)
    except Exception: continue
    if e.get('Action') in ('pass','fail','skip') and e.get('Test'):
        res[e['Package']+'::'+e['Test']]=e['Action']
base=json.load(open('/root/.vp/BASELINE.json'))
bad=[t for t in base['stable_pass'] if res.get(t)!='pass']
print("stable_pass: %d, passing now: %d, not passing: %d" % (len(base['stable_pass']), len(base['stable_pass'])-len(bad), len(bad)))
for t in bad: print("  NOT PASSING:", t, res.get(t))
sys.exit(1 if bad else 0)
PY
rc=$?
rm -f "$OUT"
exit $rc
