#!/usr/bin/env python3
"""Fills the commit hash of every fixed entry in known_findings.json from its 'subject'
(the first line of the fix: commit in /repo), so hashes survive a rebase."""
import json, subprocess, os, re
ROOT = os.path.dirname(os.path.dirname(os.path.abspath(__file__)))
log = subprocess.run(["git", "-C", "/repo", "log", "--format=%h\t%s"], capture_output=True, text=True).stdout.splitlines()
by_subject = {l.split("\t", 1)[1]: l.split("\t", 1)[0] for l in log}
p = os.path.join(ROOT, "known_findings.json")
d = json.load(open(p))
for f in d["findings"]:
    if f.get("status") != "fixed":
        continue
    subj = f.get("subject")
    if not subj:
        # legacy entries: find by old hash
        for l in log:
            if l.startswith(f.get("commit", "?")):
                f["subject"] = l.split("\t", 1)[1]
        subj = f.get("subject")
    if subj not in by_subject:
        print("NO COMMIT FOR", subj)
        continue
    h = by_subject[subj]
    old = f.get("commit")
    f["commit"] = h
    f["what"] = re.sub(r"^fixed: property=(\S+) \S+ ", lambda m: "fixed: property=%s %s " % (m.group(1), h), f["what"])
json.dump(d, open(p, "w"), indent=1, ensure_ascii=False)
print("ok")
