#!/usr/bin/env python3
"""Writes MANIFEST.json from checks_table.py (claimed properties) and properties.jsonl."""
import json, os, sys
ROOT = os.path.dirname(os.path.dirname(os.path.abspath(__file__)))
sys.path.insert(0, ROOT)
from checks_table import PROPS
ids = [json.loads(l)["id"] for l in open(os.path.join(ROOT, "properties.jsonl"))]
checks = []
for pid in ids:
    if pid not in PROPS:
        continue
    p = PROPS[pid]
    checks.append({
        "property_id": pid,
        "quick_cmd": "./check %s quick" % pid,
        "thorough_cmd": "./check %s thorough" % pid,
        "evidence_file": "evidence/%s.json" % pid,
        "replay_cmd_template": "./check %s --replay {path}" % pid,
        "engine": "rapid-harness",
        "level_claimed": {"category": p["level"], "text": p["level_text"], "design_ref": "DESIGN.md §5 " + pid},
        "level_note": p["level_note"],
        "technique": p["technique"],
    })
na = [{"property_id": pid, "reason": "check not built yet (work in progress; see DESIGN.md §8 order of work)"}
      for pid in ids if pid not in PROPS]
hooks_commits = [l.strip() for l in open(os.path.join(ROOT, "hooks_commits.txt"))] if os.path.exists(os.path.join(ROOT, "hooks_commits.txt")) else []
m = {
    "version": 1,
    "setup_cmd": "./check --setup",
    "hooks": {
        "guard": "verif",
        "enable": "go build tag 'verif' (the driver passes -tags verif); no hook files are needed so far",
        "baseline_off_cmd": "cd /repo && GOFLAGS=-mod=mod go test -mod=mod -json -vet=off -count=1 -timeout 25m ./...",
        "source_commits": hooks_commits,
        "add_only": True,
    },
    "engines": [{
        "name": "rapid-harness", "path": "harness/",
        "serves_properties": [c["property_id"] for c in checks],
        "kind_free_text": "Go module with pgregory.net/rapid v1.3.0 property tests (generators + reference model + oracles), "
                          "driven by ./check (python3): builds against /repo through a replace directive, shards by seed, "
                          "merges per-shard statistics into evidence, turns shrunk failures into JSON replay files",
    }],
    "checks": checks,
    "not_applicable": na,
    "notes": "Known findings live in known_findings.json (open entries print KNOWN-FINDING lines; fixed entries name the fix: commit in /repo).",
}
json.dump(m, open(os.path.join(ROOT, "MANIFEST.json"), "w"), indent=1)
print("claimed:", [c["property_id"] for c in checks])
