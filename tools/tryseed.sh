#!/bin/bash
# Confirms a seeded change produced by a sub-agent and runs the registered checks against it.
# usage: tryseed.sh <srcdir with patch.diff demo_test.go meta.json> <seed-id e.g. C06-1> <property> [tier]
# Steps: scratch worktree of /repo HEAD -> apply -> build -> repo suite (baseline) -> demo fails with / passes without
#        -> apply to /repo -> ./check <property> <tier> -> undo. Results go to /verif/seeded/<seed-id>/.
SRC=$1; ID=$2; PROP=$3; TIER=${4:-quick}
export GOFLAGS=-mod=mod GOPROXY=off
DST=/verif/seeded/$ID
mkdir -p $DST
cp $SRC/patch.diff $SRC/meta.json $DST/ 2>/dev/null
cp $SRC/demo_test.go $DST/demo_test.go.txt
RUNRE=$(grep -o 'func Test[A-Za-z0-9_]*' $SRC/demo_test.go | sed 's/func //' | paste -sd'|')
PKG=$(python3 -c "import json;print(json.load(open('$SRC/meta.json')).get('demo_package','syntax'))")
WT=/tmp/sv-$ID
git -C /repo worktree remove --force $WT 2>/dev/null
git -C /repo worktree add -q --detach $WT HEAD || exit 2
LOG=$DST/confirm.log; : > $LOG
if ! git -C $WT apply --3way $DST/patch.diff >>$LOG 2>&1; then echo "PATCH DOES NOT APPLY" | tee -a $LOG; git -C /repo worktree remove --force $WT; exit 3; fi
(cd $WT && go build ./... ) >>$LOG 2>&1 || { echo "BUILD FAILS" | tee -a $LOG; git -C /repo worktree remove --force $WT; exit 3; }
/verif/tools/baseline.sh $WT >>$LOG 2>&1; SUITE=$?
echo "suite_with_change_rc=$SUITE" | tee -a $LOG
cp $SRC/demo_test.go $WT/$PKG/zz_seeded_demo_test.go
(cd $WT && go test $SEED_TESTFLAGS -vet=off -count=1 ./$PKG/ -run "^($RUNRE)\$" ) >>$LOG 2>&1; WITH=$?
git -C $WT checkout -q -- . >>$LOG 2>&1; git -C $WT reset -q >>$LOG 2>&1; git -C $WT checkout -q -- . >>$LOG 2>&1   # removes the change, keeps the untracked demo
(cd $WT && go test $SEED_TESTFLAGS -vet=off -count=1 ./$PKG/ -run "^($RUNRE)\$" ) >>$LOG 2>&1; WITHOUT=$?
echo "demo_with_change_rc=$WITH demo_without_change_rc=$WITHOUT" | tee -a $LOG
git -C /repo worktree remove --force $WT
if [ $SUITE -ne 0 ] || [ $WITH -eq 0 ] || [ $WITHOUT -ne 0 ]; then echo "NOT CONFIRMED" | tee -a $LOG; exit 4; fi
# run the check against the change
git -C /repo apply --3way $DST/patch.diff || exit 5
git -C /repo reset -q
(cd /verif && ./check $PROP $TIER) > $DST/check.$PROP.$TIER.log 2>&1; RC=$?
git -C /repo checkout -- . ; git -C /repo status --short | head -3
echo "check_rc=$RC" | tee -a $LOG
grep -a "VIOLATION\|quick:\|thorough:" $DST/check.$PROP.$TIER.log | cut -c1-200
# keep the first replay as evidence of detection, clear the rest
for f in $(grep -a -o 'replays/[^ ]*' $DST/check.$PROP.$TIER.log); do mv /verif/$f $DST/ 2>/dev/null; done
exit 0
