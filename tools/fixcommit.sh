#!/bin/bash
# development aid: apply candidate hunks to /repo, run the touched packages' tests, commit as a fix.
# usage: fixcommit.sh "<commit message>" hunkfile...
set -e
MSG="$1"; shift
cd /repo
for h in "$@"; do patch -p1 --no-backup-if-mismatch < /tmp/cf/$h; done
export GOFLAGS=-mod=mod GOPROXY=off
go build ./... 
go test -vet=off -count=1 ./rel/ ./syntax/ ./pkg/... ./engine/... ./translate/... 2>&1 | grep -E '^(ok|FAIL|---)' | grep -v 'TestPackageExternalImportModule\|TestBundleFiles' || true
git add -A
git commit -q -m "$MSG"
git log --oneline | head -1
