#!/bin/bash
# development aid: run one tier of every claimed check in sequence; prints rc and wall time per property.
# usage: run_all.sh quick|thorough [seed] [ids...]
TIER=${1:-quick}; SEED=${2:-1}; shift 2
IDS=${@:-$(python3 -c "import json;print(' '.join(p['property_id'] for p in json.load(open('/verif/MANIFEST.json'))['checks']))")}
mkdir -p /verif/.build/runs
for id in $IDS; do
  t0=$(date +%s)
  (cd /verif && VERIF_SEED=$SEED ./check $id $TIER) > /verif/.build/runs/$id.$TIER.$SEED.log 2>&1; rc=$?
  echo "$id $TIER seed=$SEED rc=$rc $(( $(date +%s) - t0 ))s $(grep -a -c '^VIOLATION' /verif/.build/runs/$id.$TIER.$SEED.log) violations | $(grep -a "$TIER:" /verif/.build/runs/$id.$TIER.$SEED.log | cut -c1-90)"
done
