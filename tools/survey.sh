#!/bin/bash
# development aid: run one generated test in survey mode (collect failures, do not stop)
# usage: tools/survey.sh TestC01 [checks] [seed]
set -e
cd /verif/harness
export GOFLAGS=-mod=mod GOPROXY=off VERIF_ROOT=/verif
T=$1; N=${2:-3000}; S=${3:-7}
rm -rf checks/testdata/rapid
OUT=/verif/.build/survey.$T.txt
rm -f $OUT
VERIF_SURVEY=$OUT go test -vet=off -tags verif ./checks -run "^$T\$" -rapid.checks=$N -rapid.seed=$S -count=1 -timeout 1500s 2>&1 | tail -5
echo "--- $(grep -c '^----' $OUT 2>/dev/null || echo 0) recorded in $OUT"
